#!/venv/bin/python
"""Regenerate /verif/MANIFEST.json from the table below and validate it against the schema."""
import json, os, sys
HERE = os.path.dirname(os.path.dirname(os.path.abspath(__file__)))
props = [json.loads(l) for l in open(os.path.join(HERE, "properties.jsonl"))]

COMMON_NOTE = ("Trusted base: Coq 8.16.1 kernel and vm_compute (no native_compute); the axioms Print Assumptions reports (written into the evidence on every run; "
               "only standard-library axioms of the Reals: ClassicalDedekindReals.sig_forall_dec, sig_not_dec, FunctionalExtensionality.functional_extensionality_dep, "
               "and Classical_Prop.classic where Coquelicot/Reals are used; theorems over Q/Z/lists are closed); my AST translators and the correspondence harness; "
               "numpy/scipy/autograd/LAPACK are oracles outside the model. ")

# property id -> (category, technique, text, note, design_ref)   -- only properties whose check exists
CLAIMED = {
 "C01": ("proof", "Coq refinement theorems (code-shaped scatter/gather model = configuration-aligned, up-weighted spec) + in-Coq correspondence on exact rationals",
         "derived_observable's merge/expand/scale engine is modelled line by line (Obs/Derived.v) and proved to compute, at every configuration of the union, sum_i g_i w_i fluct_i (theorems in props/C01.v, all layouts, no size bound); "
         "the implementation is run on generated layouts x operator families and Coq decides agreement with both the model and the specification in exact rational arithmetic.",
         "autograd/numdifftools derivatives of user functions are oracles; the analytic derivative of each overload is checked numerically against independent spec gradients; model tied to obs.py by correspondence (no translator for derived_observable).", "§3 C01"),
 "C20": ("proof", "Coq theorems over AST-regenerated tables (vm_compute on Gaussian rationals, lifted to all of Z) + in-Coq correspondence",
         "Dirac tables, Grid tag table and both epsilon formulas are re-extracted from dirac.py on every run and the Clifford algebra, hermiticity, gamma5, all 16 tag identities and "
         "'epsilon = permutation sign inside the domain, rejected outside' are re-proved over the regenerated terms (the epsilon theorems for ALL integer tuples); the kn vjp lambda is regenerated and proved equal to g*dK_n/dx for every integer order under the Bessel recurrence contract. "
         "The running module is compared with the regenerated terms and with the specification inside Coq. Partial: derivatives of autograd's re-exported special functions are validated numerically only.",
         "kn clause relies on the contract of scipy.special.kn (Section hypothesis, DLMF 10.27.3/10.29.1); re-exported autograd functions are not pyerrors code (validation only).", "§3 C20"),
 "C13": ("proof", "Coq theorems (leave-one-out identity, import/export inverse, jackknife variance = naive error^2, bootstrap row = resample mean; all n, all tables) over a hand model + in-Coq correspondence",
         "export_jackknife / import_jackknife / export_bootstrap are transcribed (Obs/Resample.v, including the ones-(L-1)*identity matrix product) and proved to be the leave-one-out transform, its inverse, and the mean over resampled configurations for every length and every table; "
         "the jackknife variance is proved equal to the squared naive error. The implementation is run on generated single-chain observables and Coq decides agreement with model and specification in exact rationals. import_bootstrap's least-squares solve is an oracle: only its result is judged against the specification (restores the samples).",
         "scipy lstsq, numpy's Generator.integers and md5 seeding are oracles (default table re-derived independently in the harness).", "§3 C13"),
 "C15": ("proof", "Coq theorems over AST-regenerated stencil records (guards = references, formula = documented, no exception and exact definedness for all T and all None patterns) + in-Coq correspondence at value and observable level",
         "Every loop of Corr.deriv / second_deriv / m_eff(log, logsym, arccosh) is re-extracted from correlators.py on every run as a record (range, None guards, value guards, expression, padding) and proved equal to the documented stencil; generic theorems (Corr/Stencil.v) then give, for every T and every pattern of undefined timeslices: no exception, undefined exactly where a referenced slice is undefined, the documented value elsewhere, extent preserved. "
         "The regenerated records are executed in Coq against the implementation on all 2^T patterns (T=6 quick) and random ones; value, every fluctuation and replica means of defined slices (all variants incl. log, cosh/periodic/sinh, plateau fit/avg) are judged against the documented formula with C01's configuration-aligned specification.",
         "partial clauses: the cosh/periodic/sinh effective masses (fsolve inside find_root) and fitted plateaus are covered by correspondence only (independent brentq root + implicit derivative; weighted mean); log/arccosh values are compared through the inverse function evaluated in floating point by the harness.", "§3 C15"),
 "C19": ("proof", "Coq theorems over an exact digit model (round-half-even on the exact binary value, binary64 product) + character-exact in-Coq correspondence",
         "_format_uncertainty / __format__ / CObs.__format__ / _extract_val_and_dval are modelled exactly on rationals (Obs/Format.v: correctly rounded fixed-point digits, the binary64 rounding of error*10^k, the three exponent branches, flags, rendering to strings); proved for ALL values, errors and significances: the printed value and error denote numbers within half a unit of the last printed digit (plus 2^-53 relative for errors below 1, which the code scales in floating point), both share the decimal place, the parser returns exactly the denoted numbers, flags touch only the leading character. "
         "Every generated string is compared character by character with the model inside Coq, and the implementation's own parse / prior construction is judged against the half-unit specification.",
         "np.log10 (exponent) is an oracle; cases within 2^-44 below a power of ten or within 2^-40 of a rounding tie are skipped and counted; Python's float formatting/parsing is assumed correctly rounded and cross-checked per case.", "§3 C19"),
 "C14": ("proof", "Coq theorems on a list model of the correlator operations (timeslice-wise zip with None propagation, roll/reverse/thin/symmetrise index laws, all T) + AST-regenerated effect table (no stores into arguments) + in-Coq correspondence with before/after snapshots",
         "Corr arithmetic and index transformations are modelled on lists of optional N x N matrices (Corr/Ops.v) and proved, for every T, N and pattern of undefined slices: binary operations are timeslice-wise and undefined exactly where an operand is; roll moves slice t to (t+dt) mod T; reverse, thin, symmetric/anti_symmetric obey their index laws. A syntactic effect table of every method of class Corr is regenerated from the source and proved to contain no store into a parameter. "
         "Each generated operation (all operators in both orders, functions, transformations, Hankel, projected, item, trace, matrix_symmetric) is run on the implementation twice with the same argument objects, snapshotted, and judged in Coq against the model and against a pointwise specification; value and fluctuations of random slices are judged with C01's specification; complex content is validated on the supported subset.",
         "partial: trace/item/projected/matrix_symmetric/Hankel/T_symmetry have a model and a pointwise specification compared by computation but no separate index-law theorem; elementary-function values come from Python's math module; the effect analysis follows direct aliases only (snapshots cover the rest); complex content: numeric validation only.", "§3 C14"),
 "C04": ("proof", "Coq theorems on a constructor model (every listed malformation rejected; accepted lists strictly increasing, range iff equally spaced) + AST-regenerated operator dispatch table (closure by evaluation) + in-Coq well-formedness judgement of every object produced by random operation sequences",
         "Obs.__init__ is modelled with each of its rejections as a branch (Obs/WF.v) and proved to reject every request with a length mismatch, non-string or duplicate names, several ensembles, fewer than five samples, unsorted or duplicate configuration numbers, and to store accepted lists strictly increasing and as a range exactly when equally spaced. The isinstance chains of the arithmetic dunders are regenerated from class Obs and closure (result is a real or a complex observable for Obs / real / complex / CObs partners in both operand orders) is re-proved over the table. "
         "The structure of every object produced by random sequences of public operations (arithmetic, functions, reweight, correlate, merge_obs, cov_Obs, json / dobs / pickle / jackknife round trips, fits, roots) is extracted and judged by the boolean well-formedness predicate inside Coq; constructor requests (valid and malformed) are compared with the model.",
         "partial: preservation of well-formedness by the model of derived_observable is decided per generated case by evaluating wfb (C01's merge theorems give sortedness of the merged configuration lists for all inputs), not by a separate induction over operation sequences; covariance-input validation (eigenvalues) is LAPACK's and only its four rejection kinds are exercised.", "§3 C04"),
 "C05": ("proof", "Coq refinement theorem (positions selected by the intersection = requested configuration numbers, all strictly increasing lists) over a hand model of reweight / correlate / merge_obs + in-Coq correspondence against model and lookup-based specification",
         "_reduce_deltas (np.intersect1d positions and both shortcuts), reweight (both normalisations), correlate and merge_obs are transcribed (Obs/Pairing.v); it is proved for all strictly increasing configuration lists and all subset requests that the selected rows are exactly the fluctuations stored under the requested configuration numbers, that an unmeasured configuration is rejected, and that the reweighted flag is set. "
         "The specification pairs samples through finite-map lookup by configuration number; the implementation (function, Obs method and Corr method) is run on weights / observables on prefix, suffix, stride and random subsets and replica subsets, on malformed requests, and on replica partitions for merge_obs, and Coq decides agreement with model and specification exactly.",
         "the division <w o>/<w> itself is C01's derived_observable model; Obs.__init__'s list->range normalisation is modelled by norm_idl.", "§3 C05"),
 "C02": ("proof", "Coq refinement theorems (zero-filled arrays + shifted dot products = sums over pairs t steps apart by configuration number; slices of _compute_drho = index form; window loop = first negative lag; FFT padding; Interval-verified sign of the windowing function) over a line-by-line model + in-Coq correspondence against model and paper-formula specification",
         "gamma_method for one ensemble is transcribed over exact rationals (Obs/Gamma.v: _determine_gap, r_length, _expand_deltas, _calc_gamma, pair-count division, rho, cumulative tau_int with clipping, eq. (42), _compute_drho with its three Python slices, the tau_exp loop, S = 0, automatic windowing) with all square roots kept squared. Proved for all chain layouts and sizes: the computed Gamma(t) is the sum over configurations c of delta(c) delta(c + t gap) (pairs t measurement steps apart, by number), the divisor counts the pairs present, the FFT padding makes the circular correlation equal the linear one, the drho slices are the index form of the paper, the windowing loop returns the first lag with a negative criterion, the tau_exp criterion is decided exactly from squares, Gamma(0) = sum delta^2 / N (naive error for S = 0). "
         "The sign of g_W (exp, ln, sqrt) is decided by 80-bit interval enclosures of the Interval library with a soundness theorem. The implementation is run on generated ensembles (gap 1/2/5, mixed strides, gapped lists, five data kinds, all parameter routes, fft on/off) and Coq decides agreement of window, tau_int, errors, rho, drho, cumulative arrays with the model and with an independent re-statement from the papers' formulas; totals over ensembles and covariance inputs likewise.",
         "partial: agreement of the whole model function with the whole specification function is established per generated case by evaluation (their components are related by the theorems above); np.fft itself is outside the model; near-tie window decisions (|g_W| < 2^-30) are skipped and counted; the model receives the fluctuations as exact rationals factor*(x - mean) whose binary64 roundings the implementation holds.", "§3 C02"),
 "C03": ("proof", "Coq theorems on the Gamma-method model (whole-analysis invariance under c -> a*c+b for all replica sets and layouts; FFT = direct; parameter precedence and history irrelevance; tau_int > 1/2) + metamorphic and history correspondence judged in Coq",
         "On the model of C02 it is proved that replacing every configuration number c of an ensemble by a*c+b (a >= 1) leaves every output of the analysis unchanged (gap, extents, expanded arrays and therefore window, tau_int, errors, rho, drho), that the FFT path computes the direct sums, that the outcome depends only on the data and the effective parameters (explicit argument over per-ensemble dictionary over global default) after any history of parameter changes and other analyses, that the cumulative tau_int stays above 1/2 and the bias factor is >= 1. "
         "On the implementation, metamorphic pairs (fft on/off, shift, scale for range- and list-type lists, rename, replica order, added constant, data multiplied by c) and random histories (global / dictionary changes, analyses of the same and other objects, arithmetic) are run; Coq judges equality of all outputs (errors scaled by |c|), the effective parameters against the precedence model, and the outcome against a fresh copy; value, fluctuations and configuration lists are snapshotted around every analysis; deriving from analysed vs fresh objects is compared bit for bit.",
         "partial: invariance under replica renaming / order, added constants and the |c| scaling are covered by the metamorphic correspondence only (no theorem); the history theorem is about the functional model (mutable class attributes are tied by the history correspondence).", "§3 C03"),
 "C06": ("proof", "Coq theorems (symmetry by construction, unit diagonal, diagonal = err^2, Cauchy-Schwarz bound |corr| <= 1 for any chain length, zero for disjoint observables, sort_corr = induced permutation, smoothing normalises the trace) over a hand model parametrised by a square-root function + in-Coq correspondence against model and lookup-based specification",
         "covariance / _covariance_element / _intersection_idx / sort_corr are transcribed (Obs/Cov.v); the element is sum over shared ensembles of (sum_r s_r) / (sum_r sqrt(a_r b_r)) over the COMMON configurations plus J1 Sigma J2. Proved: the matrix is symmetric, the correlation matrix has unit diagonal and the covariance diagonal equals the squared errors (for every function with the contract of the real square root), the Pearson correlation of any two fluctuation vectors lies in [-1, 1] (Cauchy-Schwarz proved over Q for all lengths), disjoint observables have covariance 0, sort_corr is the permutation induced by sorting the keys, eigenvalue smoothing leaves the eigenvalue sum equal to the dimension. "
         "Implementation lists (nested, partly overlapping, equal-extent differently gapped lists, missing replicas, shared covariance inputs) are judged in Coq against the model (intersection + row selection) and against a specification that pairs by configuration number; permutation equivariance, the Cholesky-based inverse, smoothing and error_band are judged through their defining identities.",
         "partial: positive semi-definiteness on identical configurations, the Cholesky inverse, smoothing and error_band are validated numerically through identities (LAPACK is an oracle); the executable model uses an integer-sqrt based rational square root (64 extra bits) whose accuracy is not separately proved.", "§3 C06"),
}
NOT_YET = "check not built yet in this session (work in progress; see DESIGN.md §6 for the order of work)"

checks, na = [], []
for p in props:
    pid = p["id"]
    if pid in CLAIMED:
        cat, tech, text, note, ref = CLAIMED[pid]
        checks.append({
            "property_id": pid,
            "quick_cmd": "./check %s --tier quick" % pid,
            "thorough_cmd": "./check %s --tier thorough" % pid,
            "evidence_file": "/verif/evidence/%s.json" % pid,
            "replay_cmd_template": "./check %s --replay {path}" % pid,
            "engine": "coq-proof+correspondence",
            "level_claimed": {"category": cat, "text": text, "design_ref": ref},
            "level_note": COMMON_NOTE + note,
            "technique": tech,
        })
    else:
        na.append({"property_id": pid, "reason": NOT_YET})
m = {
 "version": 1,
 "setup_cmd": "bash /verif/setup.sh",
 "hooks": {"guard": "PYERRORS_VERIF", "enable": "no source hooks are needed: every property is observable through public attributes; ./check exports PYERRORS_VERIF=1 for uniformity",
           "baseline_off_cmd": "cd /repo && env -u PYERRORS_VERIF /venv/bin/python -m pytest -ra -q -p no:cacheprovider --timeout=900 --continue-on-collection-errors",
           "source_commits": [], "add_only": True},
 "engines": [{"name": "coq-proof+correspondence", "path": "/verif/check", "serves_properties": sorted(CLAIMED),
              "kind_free_text": "Coq 8.16.1 theorems over hand-written models and AST-regenerated fragments; correspondence decided inside Coq by vm_compute on exact rationals"}],
 "checks": checks,
 "notes": "Single entry point ./check <id> [--tier quick|thorough] [--replay file]; VERIF_SEED and VERIF_TIER are honoured. known findings: /verif/known_findings.json. Seeded mutations: /verif/seeded/.",
 "not_applicable": na,
}
json.dump(m, open(os.path.join(HERE, "MANIFEST.json"), "w"), indent=1)
import jsonschema
jsonschema.validate(m, json.load(open("/root/.vp/MANIFEST.schema.json")))
print("MANIFEST ok: %d checks, %d not claimed" % (len(checks), len(na)))
