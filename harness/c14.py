"""C14 -- correlator arithmetic acts timeslice-wise and propagates undefined slices (DESIGN §3 C14)."""
import copy
import math
import os
import sys

from harness import common, obsutil, c01
from harness.common import qlit

LEVEL = "proof"

HDR = """From Coq Require Import ZArith QArith List Bool String.
From PV Require Import Base.QAux Corr.Ops.
Import ListNotations.
Open Scope Q_scope.
"""


# ------------------------------------------------------------------ serialisation
def slice_vals(item, N):
    import numpy as np
    if item is None:
        return None
    a = np.asarray(item)
    if N == 1 or a.ndim == 1:
        return [[float(a.ravel()[0].value)]]
    return [[float(a[i, j].value) for j in range(a.shape[1])] for i in range(a.shape[0])]


def corr_vals(c):
    return [slice_vals(it, c.N) for it in c.content]


def mat_term(m):
    return "[" + "; ".join("[" + "; ".join(qlit(x) for x in row) + "]" for row in m) + "]"


def corr_term(vals):
    return "[" + "; ".join("None" if s is None else "(Some %s)" % mat_term(s) for s in vals) + "]"


def snapshot(x):
    """deep structural snapshot of an operand / argument"""
    import numpy as np
    if x is None or isinstance(x, (int, float, complex, str, bool)):
        return ("atom", repr(x))
    if isinstance(x, (list, tuple)):
        return ("seq", type(x).__name__, tuple(snapshot(e) for e in x))
    if isinstance(x, np.ndarray):
        if x.dtype == object:
            return ("objarr", x.shape, tuple(snapshot(e) for e in x.ravel()))
        return ("arr", x.shape, x.tobytes())
    if type(x).__name__ == "Corr":
        return ("Corr", x.T, x.N, repr(x.prange), repr(x.tag), tuple(snapshot(it) for it in x.content))
    if type(x).__name__ == "Obs":
        return ("Obs", repr(float(x.value)), tuple(x.names), tuple((n, repr(list(x.idl[n])), x.deltas[n].tobytes()) for n in x.names if n in x.deltas))
    if type(x).__name__ == "CObs":
        return ("CObs", snapshot(x.real), snapshot(x.imag))
    return ("other", repr(x))


def impl_outcome(call):
    import numpy as np
    try:
        r = call()
    except ValueError as e:
        return "IUndef", None, repr(e)
    except Exception as e:
        return "IRaise", None, repr(e)
    if type(r).__name__ != "Corr":
        return "IRaise", None, "returned %s instead of a Corr" % type(r).__name__
    vals = corr_vals(r)
    for k, s in enumerate(vals):
        if s is not None and any(math.isinf(x) for row in s for x in row):
            return "nonfinite", r, ""
        if s is not None and any(math.isnan(x) for row in s for x in row):
            # a DEFINED timeslice holding a not-a-number entry: keep it visible (sentinel value), the model says undefined
            vals[k] = [[(1e300 if math.isnan(x) else x) for x in row] for row in s]
    return "(IOk %s)" % corr_term(vals), r, ""


def run(ctx):
    import numpy as np
    pe = common.import_pyerrors()
    rng = ctx.rng
    quick = ctx.tier == "quick"
    sys.path.insert(0, common.VERIF)
    from translate import t_effects
    ctx.rule = ("correlators with T=2..16, N=1..3, random sets of undefined timeslices, paddings; every operator (+ - * / ** abs neg) with correlator / Obs / int / float partners in both operand orders, "
                "elementary functions (values supplied per entry, NaN -> undefined), roll (|dt| up to 3T), reverse, thin, symmetric, anti_symmetric, T_symmetry, item, trace, matrix_symmetric, projected, Hankel "
                "(periodic or not, N=1..4); complex content on the supported subset; every call is made twice with the same argument objects and all operands / arguments are snapshotted before and after; "
                "observable level: value and fluctuations of a random defined slice against C01's specification")
    ctx.trusted += ["translate/t_effects.py (syntactic effect analysis, direct aliases only)", "hand-written model Corr/Ops.v tied to correlators.py by correspondence",
                    "values of elementary functions are supplied by Python's math module (the model decides only definedness and placement)"]
    ctx.assumptions += ["tolerance 2^-30"]

    # ---------------------------------------------------------------- (T) effect table
    src = open(os.path.join(common.REPO, "pyerrors", "correlators.py")).read()
    eff_rows = []
    try:
        txt, eff_rows = t_effects.translate_effects(src, "Corr", "corr_effects")
        p = ctx.write("EffectsGen.v", txt)
        ok, so, se, _ = common.coqc(p, ctx.gendir)
        ctx.obligation("T-effects:EffectsGen.v compiles", ok, se[-600:])
        if ok:
            ctx.copy_props()
            common.tie_pycore(ctx, ["Tie_corr.v", "Tie_projected.v"])
    except t_effects.TranslateError as e:
        ctx.obligation("T-effects:translate correlators.py", False, str(e))
    ctx.extra["methods_with_argument_stores"] = {m: mu for m, _, mu in eff_rows if mu}

    # ---------------------------------------------------------------- generators
    lay_pool = [{"ens": list(range(1, 8))}, {"ens|r1": list(range(1, 7)), "ens|r2": [2, 4, 6, 8, 10]}, {"ens": [1, 2, 4, 5, 7, 8, 9]}]

    def mk_obs(lay, kind="int"):
        o = obsutil.make_obs(pe, rng, lay, kind)
        return o

    def mk_corr(T, N, lay, dens=0.8, kind="int", pad=(0, 0)):
        cont = []
        for t in range(T - pad[0] - pad[1]):
            if rng.random() > dens:
                cont.append(None)
            elif N == 1:
                cont.append(mk_obs(lay, kind))
            else:
                cont.append(np.array([[mk_obs(lay, kind) for _ in range(N)] for _ in range(N)]))
        if all(c is None for c in cont):
            cont[0] = mk_obs(lay, kind) if N == 1 else np.array([[mk_obs(lay, kind) for _ in range(N)] for _ in range(N)])
        if N == 1:
            return pe.Corr(cont, padding=list(pad))
        return pe.Corr(cont, padding=list(pad))

    cases = []
    mutations = []

    def record(a, opname, opterm, call, args, descr_extra=None):
        """run `call` twice with the same argument objects, snapshot, and store the case"""
        before = [snapshot(x) for x in [a] + list(args)]
        out, r, msg = impl_outcome(call)
        mid = [snapshot(x) for x in [a] + list(args)]
        out2, r2, _ = impl_outcome(call)
        after = [snapshot(x) for x in [a] + list(args)]
        if before != mid or mid != after:
            which = [i for i, (x, y) in enumerate(zip(before, after)) if x != y]
            ctx.fail("mutation:%s" % opname, "%s modifies %s" % (opname, "its operand" if which == [0] else "the argument object(s) passed to it"),
                     {"op": opname, "changed_positions": which, "before": repr(before)[:400], "after": repr(after)[:400]})
        elif out != out2:
            ctx.fail("not-repeatable:%s" % opname, "%s gives a different result when invoked again with the same argument objects" % opname, {"op": opname})
        if out == "nonfinite":
            ctx.skip("non-finite value in implementation result")
            return r
        vals = corr_vals(a)
        scale = max([1.0] + [abs(x) for s in vals if s for row in s for x in row])
        term = "(mkOC %s %s %s tol30 %s)" % (corr_term(vals), opterm, out, qlit(2.0 ** -30 * scale))
        descr = {"op": opname, "T": a.T, "N": a.N, "pattern": "".join("-" if s is None else "x" for s in vals), "impl": out[:60] if out.startswith("I") else "IOk", "exception": msg}
        if descr_extra:
            descr.update(descr_extra)
        cases.append({"term": term, "descr": descr, "key": "op:%s:%s" % (opname.split("(")[0], "raises" if out == "IRaise" else "undefined" if out == "IUndef" else "wrong"),
                      "what": "%s on a correlator with T=%d N=%d pattern %s: implementation %s; the timeslice-wise specification says otherwise" % (
                          opname, a.T, a.N, descr["pattern"], {"IRaise": "raises " + msg, "IUndef": "raises " + msg}.get(out, "returns other slices / entries")),
                      "replay": dict(descr, values=vals)})
        ctx.count("op:" + opname.split("(")[0].split(" ")[0])
        ctx.count("N=%d" % a.N)
        ctx.case((opname, a.T, a.N, descr["pattern"], repr(vals[:2])), nontrivial=("-" in descr["pattern"]))
        return r

    FN = {"sin": math.sin, "cos": math.cos, "exp": math.exp, "log": math.log, "sqrt": math.sqrt, "tanh": math.tanh, "arcsin": math.asin, "arccosh": math.acosh,
          "arctan": math.atan, "sinh": math.sinh}

    def fn_vals(fname, vals):
        out = []
        for s in vals:
            if s is None:
                out.append(None)
                continue
            m = []
            for row in s:
                rr = []
                for x in row:
                    try:
                        y = FN[fname](x)
                        rr.append(y if math.isfinite(y) else None)
                    except (ValueError, OverflowError):
                        rr.append(None)
                m.append(rr)
            out.append(m)
        return out

    def fn_term(v):
        return "[" + "; ".join("None" if s is None else "(Some [" + "; ".join("[" + "; ".join("None" if x is None else "(Some %s)" % qlit(x) for x in row) + "]" for row in s) + "])" for s in v) + "]"

    nrounds = 45 if quick else 700
    for it in range(nrounds):
        T = rng.randint(2, 16)
        N = rng.choice([1, 1, 1, 2, 2, 3])
        lay = rng.choice(lay_pool)
        pad = rng.choice([(0, 0), (0, 0), (1, 0), (0, 2), (1, 1)]) if T > 4 else (0, 0)
        a = mk_corr(T, N, lay, dens=rng.choice([1.0, 0.8, 0.6]), pad=pad)
        b = mk_corr(T, N, lay, dens=rng.choice([1.0, 0.8]))
        b1 = mk_corr(T, 1, lay, dens=0.9)
        bvals, b1vals = corr_vals(b), corr_vals(b1)
        y = float(rng.choice([2, -3, 0.5, 4, -1.25]))
        yo = mk_obs(lay, "positive")
        sym = {0: "+", 1: "-", 2: "*", 3: "/"}
        for f in range(4):
            bb, bbv = (b, bvals) if (f < 2 or rng.random() < 0.6) else (b1, b1vals)
            if f == 3 and any(x == 0 for s in bbv if s for row in s for x in row if True) and not all(True for _ in [0]):
                pass
            zero_den = f == 3 and any(x == 0 for s in bbv if s for row in s for x in row)
            if not zero_den:
                record(a, "Corr %s Corr" % sym[f], "(OpBin %d%%nat %s)" % (f, corr_term(bbv)),
                       {0: lambda: a + bb, 1: lambda: a - bb, 2: lambda: a * bb, 3: lambda: a / bb}[f], [bb])
            record(a, "Corr %s number" % sym[f], "(OpScalR %d%%nat %s)" % (f, qlit(y)), {0: lambda: a + y, 1: lambda: a - y, 2: lambda: a * y, 3: lambda: a / y}[f], [y])
            record(a, "Corr %s Obs" % sym[f], "(OpScalR %d%%nat %s)" % (f, qlit(float(yo.value))), {0: lambda: a + yo, 1: lambda: a - yo, 2: lambda: a * yo, 3: lambda: a / yo}[f], [yo])
            nozero = not any(x == 0 for s in corr_vals(a) if s for row in s for x in row)
            if f != 3 or nozero:
                record(a, "number %s Corr" % sym[f], "(OpScalL %d%%nat %s)" % (f, qlit(y)), {0: lambda: y + a, 1: lambda: y - a, 2: lambda: y * a, 3: lambda: y / a}[f], [y])
                record(a, "Obs %s Corr" % sym[f], "(OpScalL %d%%nat %s)" % (f, qlit(float(yo.value))), {0: lambda: yo + a, 1: lambda: yo - a, 2: lambda: yo * a, 3: lambda: yo / a}[f], [yo])
        record(a, "-Corr", "OpNeg", lambda: -a, [])
        record(a, "abs(Corr)", "OpAbs", lambda: abs(a), [])
        n = rng.choice([2, 3])
        record(a, "Corr ** %d" % n, "(OpPow %d%%nat)" % n, lambda: a ** n, [n])
        fname = rng.choice(sorted(FN))
        sc = a * 0.0625 if fname in ("exp", "sinh", "arcsin", "tanh") else a
        fv = fn_vals(fname, corr_vals(sc))
        record(sc, "np.%s(Corr)" % fname, "(OpApply %s)" % fn_term(fv), lambda: getattr(np, fname)(sc), [], {"function": fname})
        dt = rng.randint(-3 * T - 2, 3 * T + 2)
        record(a, "roll(%d)" % dt, "(OpRoll (%d)%%Z)" % dt, lambda: a.roll(dt), [dt])
        record(a, "reverse()", "OpReverse", lambda: a.reverse(), [])
        sp, off = rng.randint(1, 4), rng.randint(0, 5)
        record(a, "thin(%d,%d)" % (sp, off), "(OpThin (%d)%%Z (%d)%%Z)" % (sp, off), lambda: a.thin(sp, off), [sp, off])
        if N == 1:
            import warnings
            with warnings.catch_warnings():
                warnings.simplefilter("ignore")
                record(a, "symmetric()", "OpSym", lambda: a.symmetric(), [])
                record(a, "anti_symmetric()", "OpAntiSym", lambda: a.anti_symmetric(), [])
                par = rng.choice([1, -1])
                record(a, "T_symmetry(partner,%d)" % par, "(OpTSym %s %s)" % (corr_term(b1vals), qlit(par)), lambda: a.T_symmetry(b1, par), [b1, par])
            HN = rng.choice([1, 2, 2, 3, 4])
            per = rng.random() < 0.5
            full = a if rng.random() < 0.5 else mk_corr(T, 1, lay, dens=1.0)
            record(full, "Hankel(%d,periodic=%s)" % (HN, per), "(OpHankel %d%%nat %s)" % (HN, "true" if per else "false"), lambda: full.Hankel(HN, periodic=per), [HN, per])
            pr = [rng.randint(0, T - 1), rng.randint(0, T - 1)]
            pr.sort()
            prs = snapshot(pr)
            _ = a.__repr__(pr)
            _ = a.__repr__(pr)
            if snapshot(pr) != prs:
                ctx.fail("mutation:__repr__(print_range)", "Corr.__repr__ / print modifies the print_range list passed to it", {"passed": list(eval(prs[2][0][1]) if False else []), "after": pr})
            ctx.case(("repr", T, tuple(pr)), nontrivial=False)
        else:
            i, j = rng.randrange(N), rng.randrange(N)
            record(a, "item(%d,%d)" % (i, j), "(OpItem %d%%nat %d%%nat)" % (i, j), lambda: a.item(i, j), [i, j])
            record(a, "trace()", "OpTrace", lambda: a.trace(), [])
            record(a, "matrix_symmetric()", "OpMatSym", lambda: a.matrix_symmetric(), [])
            vl = np.array([float(rng.randint(-3, 3)) for _ in range(N)])
            vr = np.array([float(rng.randint(-3, 3)) for _ in range(N)])
            record(a, "projected(vl,vr)", "(OpProjected [%s] [%s])" % ("; ".join(qlit(x) for x in vl), "; ".join(qlit(x) for x in vr)), lambda: a.projected(vl, vr), [vl, vr])
            # per-timeslice vector lists, with and without normalisation: arguments must not be modified
            vls = [np.array([float(rng.randint(1, 3)) for _ in range(N)]) for _ in range(T)]
            vrs = [np.array([float(rng.randint(1, 3)) for _ in range(N)]) for _ in range(T)]
            # values with one (different) vector pair per timeslice, some of them undefined; with normalize=True the harness normalises each vector itself
            def optvec(v):
                return "None" if v is None else "(Some [%s])" % "; ".join(qlit(float(x)) for x in v)
            for norm in (False, True):
                wl = [None if rng.random() < 0.12 else np.array([float(rng.randint(-3, 3)) for _ in range(N)]) for _ in range(T)]
                wr = [None if rng.random() < 0.12 else np.array([float(rng.randint(-3, 3)) for _ in range(N)]) for _ in range(T)]
                if norm:
                    wl = [None if v is None else (v if v @ v else v + 1.0) for v in wl]
                    wr = [None if v is None else (v if v @ v else v + 1.0) for v in wr]
                    el = [None if v is None else v / math.sqrt(float(v @ v)) for v in wl]
                    er = [None if v is None else v / math.sqrt(float(v @ v)) for v in wr]
                else:
                    el, er = wl, wr
                record(a, "projected(list,list,normalize=%s)" % norm, "(OpProjectedL [%s] [%s])" % ("; ".join(optvec(v) for v in el), "; ".join(optvec(v) for v in er)),
                       lambda: a.projected(wl, wr, normalize=norm), [wl, wr])
            for norm in (False, True):
                b4 = [snapshot(vls), snapshot(vrs)]
                try:
                    a.projected(vls, vrs, normalize=norm)
                    a.projected(vls, vrs, normalize=norm)
                except Exception as e:
                    ctx.skip("projected(list, list) raised %s" % type(e).__name__)
                if [snapshot(vls), snapshot(vrs)] != b4:
                    ctx.fail("mutation:projected(normalize=%s)" % norm, "projected(vector lists, normalize=%s) overwrites the caller's vectors" % norm, {"normalize": norm, "N": N, "T": T})
                ctx.case(("projected-lists", norm, T, N), nontrivial=False)

    bm, bs = common.judge_cases(ctx, "C14o", HDR, "ocase", [c["term"] for c in cases], ["ocase_model_ok", "ocase_spec_ok"], shard=60)
    common.settle(ctx, "ops", cases, bm, bs, "model Corr/Ops.v reproduces every correlator operation on all generated cases")

    # ---------------------------------------------------------------- observable level (fluctuations) of a random defined slice
    dc = []
    for it in range(40 if quick else 500):
        T = rng.choice([4, 6, 8, 10])
        lay = rng.choice(lay_pool)
        lay2 = obsutil.derive_layout(rng, lay, rng.choice(["same", "same", "subset_prefix", "superset"]))
        ca = [mk_obs(lay, "positive") if rng.random() < 0.85 else None for _ in range(T)]
        cb = [mk_obs(lay2, "positive") if rng.random() < 0.85 else None for _ in range(T)]
        if all(x is None for x in ca) or all(x is None for x in cb):
            continue        # the constructor refuses a correlator without any defined timeslice
        a, b = pe.Corr(ca), pe.Corr(cb)
        fam = rng.choice(["add", "sub", "mul", "div", "sym", "antisym", "tsym", "obsmul"])
        import warnings
        try:
            with warnings.catch_warnings():
                warnings.simplefilter("ignore")
                if fam in ("add", "sub", "mul", "div"):
                    res = {"add": lambda: a + b, "sub": lambda: a - b, "mul": lambda: a * b, "div": lambda: a / b}[fam]()
                    pick = lambda t: ([a.content[t][0], b.content[t][0]], {"add": lambda v: v[0] + v[1], "sub": lambda v: v[0] - v[1], "mul": lambda v: v[0] * v[1], "div": lambda v: v[0] / v[1]}[fam],
                                      {"add": lambda v: [1.0, 1.0], "sub": lambda v: [1.0, -1.0], "mul": lambda v: [v[1], v[0]], "div": lambda v: [1 / v[1], -v[0] / v[1] ** 2]}[fam])
                elif fam == "obsmul":
                    yo = mk_obs(lay2, "positive")
                    res = yo * a if rng.random() < 0.5 else a * yo
                    pick = lambda t: ([a.content[t][0], yo], lambda v: v[0] * v[1], lambda v: [v[1], v[0]])
                elif fam in ("sym", "antisym"):
                    sg = 1.0 if fam == "sym" else -1.0
                    res = a.symmetric() if fam == "sym" else a.anti_symmetric()
                    pick = lambda t: ([a.content[t][0], a.content[T - t][0]], lambda v: 0.5 * (v[0] + sg * v[1]), lambda v: [0.5, 0.5 * sg]) if t > 0 and T - t != t else None
                else:
                    par = rng.choice([1, -1])
                    res = a.T_symmetry(b, par)
                    pick = lambda t: ([a.content[t][0], b.content[T - 1 - t][0]], lambda v: (v[0] + par * v[1]) / 2, lambda v: [0.5, 0.5 * par])
        except Exception as e:
            # an operation whose result has no defined timeslice at all may be refused with any exception (the property speaks about defined timeslices)
            partner = {"add": lambda t: t, "sub": lambda t: t, "mul": lambda t: t, "div": lambda t: t, "tsym": lambda t: T - 1 - t}.get(fam)
            nothing_defined = partner is not None and not any(ca[t] is not None and cb[partner(t)] is not None for t in range(T))
            if fam == "antisym" and a.content[0] is None or isinstance(e, ValueError) or nothing_defined:
                ctx.skip("observable level: %s raised %s" % (fam, type(e).__name__))
            else:
                ctx.fail("observable-level:raises:" + fam, "%s raised %r" % (fam, e), {"family": fam, "T": T})
            continue
        ts = [t for t in range(T) if res.content[t] is not None]
        rng.shuffle(ts)
        for t in ts[:2]:
            try:
                pk = pick(t)
            except (TypeError, IndexError):
                pk = None
            if pk is None:
                continue
            ops, f, g = pk
            vs = [float(o.value) for o in ops]
            val, gs = float(f(vs)), [float(x) for x in g(vs)]
            r = res.content[t][0]
            try:
                rvals = c01._rvals(ops, f)
                term = c01._case_term([obsutil.obs_term(o) for o in ops], val, rvals, gs, obsutil.obs_term(r), "tol30", c01._scale(ops, gs, val) * 2.0 ** -30)
            except Exception:
                ctx.skip("observable level: spec undefined")
                continue
            descr = {"family": fam, "T": T, "t": t, "spec_value": val, "impl_value": float(r.value)}
            dc.append({"term": term, "descr": descr, "key": "identity:" + fam, "what": "entry at t=%d of the result of %s is not the operation applied to the operands' entries (value / fluctuations)" % (t, fam),
                       "replay": {"descr": descr, "operands": [obsutil.obs_struct(o) for o in ops], "impl": obsutil.obs_struct(r)}})
            ctx.count("identity:" + fam)
            ctx.case(("obs", fam, T, t, round(val, 9)), sample={"op": fam, "t": t, "spec_value": val, "impl_value": float(r.value)})
    if dc:
        (bs,) = common.judge_cases(ctx, "C14d", c01.HDR, "dcase", [c["term"] for c in dc], ["dcase_spec_ok"], shard=30)
        common.settle(ctx, "identities", dc, [], bs, "n/a")

    # ---------------------------------------------------------------- complex content (supported subset): validation of placement and values
    pairs = []
    for it in range(10 if quick else 150):
        T = rng.randint(2, 10)
        lay = lay_pool[0]
        cont = [pe.CObs(mk_obs(lay), mk_obs(lay)) if rng.random() < 0.8 else None for _ in range(T)]
        if all(c is None for c in cont):
            continue
        cc = pe.Corr(cont)
        z = complex(rng.randint(-3, 3), rng.randint(1, 3))
        yo = mk_obs(lay, "positive")
        zo = pe.CObs(mk_obs(lay), mk_obs(lay))
        zov = complex(float(zo.real.value), float(zo.imag.value))
        ops = [("+z", lambda: cc + z, lambda v: v + z), ("*z", lambda: cc * z, lambda v: v * z), ("-z", lambda: cc - z, lambda v: v - z),
               ("+Obs", lambda: cc + yo, lambda v: v + float(yo.value)), ("*Obs", lambda: cc * yo, lambda v: v * float(yo.value)), ("/Obs", lambda: cc / yo, lambda v: v / float(yo.value)),
               ("/2.5", lambda: cc / 2.5, lambda v: v / 2.5), ("*CObs", lambda: cc * zo, lambda v: v * zov), ("+CObs", lambda: cc + zo, lambda v: v + zov),
               ("+Corr", lambda: cc + cc, lambda v: v + v), ("*Corr", lambda: cc * cc, lambda v: v * v)]
        for nm, call, ref in ops:
            try:
                r = call()
            except Exception as e:
                ctx.fail("complex:raises:" + nm, "complex correlator %s raised %r" % (nm, e), {"op": nm, "T": T})
                continue
            if r.T != T or r.N != 1:
                ctx.fail("complex:extent:" + nm, "complex correlator %s changed T or N" % nm, {"op": nm})
                continue
            for t in range(T):
                if (r.content[t] is None) != (cont[t] is None):
                    ctx.fail("complex:definedness:" + nm, "complex correlator %s: slice %d defined-ness differs from the operand's" % (nm, t), {"op": nm, "t": t})
                    break
                if cont[t] is not None:
                    v = complex(float(cont[t].real.value), float(cont[t].imag.value))
                    w = ref(v)
                    e = r.content[t][0]
                    pairs.append((float(e.real.value), w.real, nm))
                    pairs.append((float(e.imag.value), w.imag, nm))
            ctx.case(("complex", nm, T), nontrivial=False)
    if pairs:
        txt = HDR + "Definition pairs : list (Q * Q) := [%s].\nEval vm_compute in bad_cases (fun p => closeb tol30 tol30 (fst p) (snd p)) pairs.\n" % "; ".join("(%s, %s)" % (qlit(a), qlit(b)) for a, b, _ in pairs)
        p = ctx.write("ComplexPairs.v", txt)
        ok, so, se, _ = common.coqc(p, ctx.gendir)
        if not ok:
            ctx.obligation("X:ComplexPairs.v evaluates", False, se[-500:])
        else:
            for i in common.parse_z_list(so, 0) or []:
                ctx.fail("complex:value:" + pairs[i][2], "complex correlator %s: entry value %r differs from the operation applied to the operand's entry (%r)" % (pairs[i][2], pairs[i][0], pairs[i][1]), {"op": pairs[i][2]})
        ctx.count("complex entry comparisons", len(pairs))


def replay(ctx, doc):
    run(ctx)
