"""C05 -- reweighting, correlating and merging pair samples by configuration number (DESIGN §3 C05)."""
import warnings

from harness import common, obsutil
from harness.common import qlit

LEVEL = "proof"

HDR = """From Coq Require Import ZArith QArith List Bool String.
From PV Require Import Base.QAux Obs.Model Obs.Derived Obs.Pairing.
Import ListNotations.
Open Scope Q_scope.
Open Scope string_scope.
"""


def _layout1(rng, nmin=6, nmax=18):
    """one ensemble, 1..3 replicas"""
    return obsutil.gen_layout(rng, nmin=nmin, nmax=nmax, max_ens=1)


def _sub_layout(rng, lay, mode, keep_reps):
    out = {}
    for n in sorted(lay):
        if n not in keep_reps:
            continue
        c = lay[n]
        if mode == "same":
            out[n] = list(c)
        elif mode == "prefix":
            out[n] = c[:max(5, len(c) - rng.randint(1, max(1, len(c) // 2)))]
        elif mode == "suffix":
            out[n] = c[-max(5, len(c) - rng.randint(1, max(1, len(c) // 2))):]
        elif mode == "stride":
            s = c[rng.randint(0, 1)::2]
            out[n] = s if len(s) >= 5 else list(c)
        elif mode == "random":
            k = max(5, len(c) - rng.randint(1, max(1, len(c) // 2)))
            out[n] = sorted(rng.sample(c, k)) if k < len(c) else list(c)
        elif mode == "extra":          # NOT a subset: one configuration the weight lacks
            extra = c[-1] + 1
            out[n] = list(c[:-1]) + [extra] if rng.random() < 0.5 else list(c) + [extra]
        else:
            raise ValueError(mode)
    return out


def run(ctx):
    import numpy as np
    pe = common.import_pyerrors()
    rng = ctx.rng
    quick = ctx.tier == "quick"
    ctx.rule = ("weights on one ensemble with 1..3 replicas and contiguous/strided/gapped/irregular configuration lists (given as range/list/ndarray); observables on the same / prefix / suffix / stride / random subset of the "
                "weight's configurations and on a non-empty subset of its replicas, both normalisations, through reweight, Obs.reweight and Corr.reweight; malformed stream: a configuration the weight lacks, a foreign replica, "
                "covariance inputs; correlate on identical layouts plus differing lists / chains / covobs; merge_obs over replica partitions incl. multi-replica inputs, duplicates and covobs")
    ctx.trusted += ["hand-written model Obs/Pairing.v tied to obs.py by correspondence"]
    ctx.assumptions += ["tolerance 2^-30"]
    ctx.copy_props()
    common.tie_pycore(ctx, ["Tie_reduce.v", "Tie_reweight.v", "Tie_correlate.v", "Tie_corrpair.v"])
    cases = []

    def add(opterm, impl, descr, key, what, replay):
        impl_t = "None" if impl is None else "(Some %s)" % obsutil.obs_term(impl)
        scale = 1.0
        if impl is not None:
            scale = max([1.0, abs(float(impl.value))] + [float(np.max(np.abs(impl.deltas[n]))) for n in impl.deltas])
        cases.append({"term": "(mkPC %s %s tol30 %s)" % (opterm, impl_t, qlit(scale * 2.0 ** -30)), "descr": descr, "key": key, "what": what, "replay": replay})

    n = 150 if quick else 2500
    for i in range(n):
        lay = _layout1(rng)
        fam = rng.choice(["reweight", "reweight", "reweight", "correlate", "merge"])
        with warnings.catch_warnings():
            warnings.simplefilter("ignore")
            if fam == "reweight":
                w = obsutil.make_obs(pe, rng, lay, "positive")
                reps = sorted(lay)
                keep = set(rng.sample(reps, rng.randint(1, len(reps))))
                mode = rng.choice(["same", "prefix", "suffix", "stride", "random", "random", "extra", "foreign", "covobs"])
                allc = rng.random() < 0.4
                if mode == "foreign":
                    ens = reps[0].split("|")[0]
                    sub = {"%s|zz9" % ens: obsutil.gen_cfgs(rng, 6, "contiguous")}
                elif mode == "covobs":
                    sub = _sub_layout(rng, lay, "same", keep)
                else:
                    sub = _sub_layout(rng, lay, mode, keep)
                o = obsutil.make_obs(pe, rng, sub, "int")
                if mode == "covobs":
                    o = o * pe.cov_Obs(1.5, 0.04, "cvR")
                via = rng.choice(["function", "function-list", "method", "corr"])
                try:
                    if via == "function-list":
                        # several observables in one call: an earlier entry lives on a twin layout (same first / last configuration and
                        # count on every replica, another interior) -- each entry must still be paired with its own configurations
                        twin = {}
                        for nm, cf in sub.items():
                            cf = list(cf)
                            spare = [c for c in lay.get(nm, []) if cf and cf[0] < c < cf[-1] and c not in cf]
                            if len(cf) >= 3 and spare:
                                cf[rng.randrange(1, len(cf) - 1)] = rng.choice(spare)
                                cf = sorted(set(cf))
                            twin[nm] = cf
                        try:
                            o_twin = obsutil.make_obs(pe, rng, twin, "int")
                            lst = [o_twin, o] if all(len(twin[k]) == len(list(sub[k])) for k in sub) else [o]
                        except Exception:
                            lst = [o]
                        if mode == "covobs":
                            lst = [o]
                        r = pe.reweight(w, lst, all_configs=allc)[-1]
                    elif via == "function":
                        r = pe.reweight(w, [o], all_configs=allc)[0]
                    elif via == "method":
                        r = o.reweight(w, all_configs=allc)
                    else:
                        r = pe.Corr([o, o]).reweight(w, all_configs=allc).content[1][0]
                except Exception:
                    r = None
                descr = {"op": "reweight", "mode": mode, "all_configs": allc, "via": via, "weight_layout": {k: len(v) for k, v in lay.items()}, "obs_reps": sorted(sub)}
                add("(PReweight %s %s %s)" % (obsutil.obs_term(w), obsutil.obs_term(o), "true" if allc else "false"), r, descr,
                    "reweight:%s:%s" % (mode, "accepted" if r is not None else "rejected"),
                    "reweight (obs on a %s subset, all_configs=%s, via %s) %s; <w*o>/<w> by configuration number says otherwise" % (mode, allc, via, "returns other numbers" if r is not None else "is rejected"),
                    {"descr": descr, "weight": obsutil.obs_struct(w), "obs": obsutil.obs_struct(o), "impl": None if r is None else obsutil.obs_struct(r)})
                ctx.count("reweight:" + mode); ctx.count("via:" + via)
            elif fam == "correlate":
                a = obsutil.make_obs(pe, rng, lay, "int")
                mode = rng.choice(["same", "same", "same", "other-list", "other-chains", "covobs", "reweighted"])
                if mode in ("same", "covobs", "reweighted"):
                    b = obsutil.make_obs(pe, rng, lay, "positive")
                elif mode == "other-list":
                    b = obsutil.make_obs(pe, rng, obsutil.derive_layout(rng, lay, rng.choice(["subset_prefix", "shifted_odd", "superset"])), "positive")
                else:
                    keep = sorted(lay)[:-1] or sorted(lay)
                    ens = sorted(lay)[0].split("|")[0]
                    l2 = {k: lay[k] for k in keep}
                    l2["%s|zz9" % ens] = obsutil.gen_cfgs(rng, 6, "contiguous")
                    b = obsutil.make_obs(pe, rng, l2, "positive")
                if mode == "covobs":
                    b = b * pe.cov_Obs(1.5, 0.04, "cvR")
                if mode == "reweighted":
                    a = pe.reweight(obsutil.make_obs(pe, rng, lay, "positive"), [a])[0]
                via_corr = mode == "same" and rng.random() < 0.4
                try:
                    if via_corr:
                        # through Corr.correlate with a Corr partner: timeslice 1 of the result must be correlate(a, b) -- the partner's timeslice of the SAME number --
                        # and a timeslice that is undefined in one of the two correlators is undefined in the result
                        a0, a2, b0, b2 = (obsutil.make_obs(pe, rng, lay, "positive") for _ in range(4))
                        hole_a, hole_b = rng.random() < 0.4, rng.random() < 0.4
                        cr = pe.Corr([a0, a, None if hole_a else a2]).correlate(pe.Corr([None if hole_b else b0, b, b2]))
                        r = cr.content[1][0]
                        if (cr.content[0] is None) != hole_b or (cr.content[2] is None) != hole_a:
                            ctx.fail("correlate:corr:undefined-pattern", "Corr.correlate: the result is not undefined exactly where one of the two correlators is",
                                     {"undefined_in_self": [2] if hole_a else [], "undefined_in_partner": [0] if hole_b else [], "result_undefined": [t for t in range(3) if cr.content[t] is None]})
                    else:
                        r = pe.correlate(a, b)
                except Exception:
                    r = None
                descr = {"op": "correlate" if not via_corr else "Corr.correlate (timeslice 1 of 3)", "mode": mode, "layout": {k: len(v) for k, v in lay.items()}}
                add("(PCorrelate %s %s)" % (obsutil.obs_term(a), obsutil.obs_term(b)), r, descr, "correlate:%s:%s" % (mode, "accepted" if r is not None else "rejected"),
                    "correlate (%s) %s; the observable of the per-configuration products says otherwise" % (mode, "returns other numbers" if r is not None else "is rejected"),
                    {"descr": descr, "a": obsutil.obs_struct(a), "b": obsutil.obs_struct(b), "impl": None if r is None else obsutil.obs_struct(r)})
                ctx.count("correlate:" + mode)
            else:
                ens = rng.choice(["A", "ens"])
                nrep = rng.randint(2, 4)
                names = ["%s|r%d" % (ens, k + 1) for k in range(nrep)]
                cf = {nm: obsutil.gen_cfgs(rng, rng.randint(5, 10), rng.choice(obsutil.IDL_KINDS)) for nm in names}
                mode = rng.choice(["singles", "blocks", "blocks", "duplicate", "covobs", "two-step"])
                singles = [obsutil.make_obs(pe, rng, {nm: cf[nm]}, "int") for nm in names]
                try:
                    if mode == "singles":
                        parts = singles
                    elif mode in ("blocks", "two-step"):
                        parts = [pe.merge_obs(singles[:2])] + singles[2:]
                    elif mode == "duplicate":
                        parts = singles + [singles[0]]
                    else:
                        parts = [singles[0] * pe.cov_Obs(1.5, 0.04, "cvR")] + singles[1:]
                    rng.shuffle(parts)
                    r = pe.merge_obs(parts)
                except Exception:
                    r = None
                descr = {"op": "merge_obs", "mode": mode, "parts": [list(p.names) for p in parts]}
                add("(PMerge [%s])" % "; ".join(obsutil.obs_term(p) for p in parts), r, descr, "merge:%s:%s" % (mode, "accepted" if r is not None else "rejected"),
                    "merge_obs (%s) %s; the union of the inputs' chains says otherwise" % (mode, "returns other chains / samples" if r is not None else "is rejected"),
                    {"descr": descr, "parts": [obsutil.obs_struct(p) for p in parts], "impl": None if r is None else obsutil.obs_struct(r)})
                ctx.count("merge:" + mode)
        ctx.case((fam, repr(cases[-1]["descr"]), i), nontrivial=True, sample=cases[-1]["descr"])
    bm, bs = common.judge_cases(ctx, "C05", HDR, "pcase", [c["term"] for c in cases], ["pcase_model_ok", "pcase_spec_ok"], shard=25)
    common.settle(ctx, "pairing", cases, bm, bs, "model Obs/Pairing.v reproduces reweight / correlate / merge_obs on all generated cases")

    # the flag is inherited by everything derived from a reweighted result
    lay = _layout1(rng)
    w, o = obsutil.make_obs(pe, rng, lay, "positive"), obsutil.make_obs(pe, rng, lay, "int")
    r = pe.reweight(w, [o])[0]
    for expr, nm in ((r * 2 + 1, "r*2+1"), (np.sin(r), "sin(r)"), (r + o, "r+o"), (o - r * r, "o-r*r")):
        if expr.reweighted is not True:
            ctx.fail("flag:not-inherited", "the reweighted flag is not inherited by %s" % nm, {"expr": nm})
        ctx.case(("flag", nm), nontrivial=False)


def replay(ctx, doc):
    run(ctx)
