"""C03 -- error analysis is invariant under relabelling, rescaling and call history (DESIGN §3 C03)."""
import copy

from harness import common, obsutil
from harness.common import qlit, zlit, coq_string
from harness import c02

LEVEL = "proof"

HDR = """From Coq Require Import ZArith QArith List Bool String.
From PV Require Import Base.QAux Obs.Model Obs.Gamma Obs.GammaInv Obs.GammaCases.
Import ListNotations.
Open Scope Q_scope.
Open Scope string_scope.
"""


def gimpl(o, e, raised=False):
    try:
        return c02.impl_term(o, e, raised)
    except KeyError:
        return c02.impl_term(o, e, True)


def build(pe, rng, spec):
    """spec: list of (name, cfgs, data, form) for ONE ensemble -> Obs"""
    import numpy as np
    names, samples, idl = [], [], []
    for name, cf, data, form in spec:
        names.append(name)
        samples.append(np.array(data, dtype=float))
        if form == "range" and obsutil.is_uniform(cf):
            idl.append(range(cf[0], cf[-1] + 1, cf[1] - cf[0]))
        elif form == "array":
            idl.append(np.array(cf))
        else:
            idl.append(list(cf))
    return pe.Obs(samples, names, idl=idl)


def run(ctx):
    import numpy as np
    pe = common.import_pyerrors()
    rng = ctx.rng
    quick = ctx.tier == "quick"
    ctx.rule = ("metamorphic pairs on the implementation, judged in Coq: fft vs direct; configuration numbers shifted by b (-3 .. 10^6) or multiplied by a in {2, 3, 10} for range-type and list-type (gapped) lists; replicas renamed / "
                "supplied in another order; constant added to the data; data multiplied by c (errors scale with |c|); each on 1..3 replicas, contiguous / strided / gapped lists, white / AR(1) / two-level data, "
                "S in {0.5 .. 3}, tau_exp in {0, 2}, N_sigma in {0, 1, 2}. Histories: random sequences of changes of the global and per-ensemble parameters interleaved with analyses of other objects and arithmetic; "
                "the effective parameters are judged by the precedence model and the outcome against a fresh copy analysed with explicit arguments; value / fluctuations / configuration lists are snapshotted around every analysis")
    ctx.trusted += ["the invariance theorems are about the model Obs/Gamma.v (tied to obs.py by C02's correspondence)"]
    ctx.assumptions += ["tolerance 2^-30 for pairs whose floating-point operations differ (scaling of data, added constant); identical otherwise"]
    ctx.copy_props()
    common.tie_pycore(ctx, ["Tie_expand_deltas.v", "Tie_gap.v", "Tie_kwarg.v"])

    saved = (pe.Obs.S_global, pe.Obs.tau_exp_global, pe.Obs.N_sigma_global, dict(pe.Obs.S_dict), dict(pe.Obs.tau_exp_dict), dict(pe.Obs.N_sigma_dict))

    def reset():
        pe.Obs.S_global, pe.Obs.tau_exp_global, pe.Obs.N_sigma_global = 2.0, 0.0, 1.0
        pe.Obs.S_dict.clear(); pe.Obs.tau_exp_dict.clear(); pe.Obs.N_sigma_dict.clear()

    mc, hc = [], []
    try:
        reset()
        npair = 140 if quick else 2500
        for i in range(npair):
            ens = rng.choice(["A", "ens", "B7"])
            nrep = rng.choice([1, 1, 2, 3])
            gap = rng.choice([1, 1, 2])
            dk = rng.choice(["white", "ar1", "ar1", "twolevel"])
            spec = []
            for k in range(nrep):
                n = rng.randint(9, 40 if quick else 200)
                kind = rng.choice(["contiguous", "strided", "gapped", "gapped"])
                cf = c02.gen_common_spacing_cfgs(rng, n, kind, gap)
                spec.append(("%s|r%d" % (ens, k + 1), cf, c02.gen_chain_data(rng, len(cf), dk), rng.choice(["list", "range", "array"])))
            S, te, ns = rng.choice([0.5, 1, 2, 2, 3]), rng.choice([0, 0, 2]), rng.choice([0, 1, 2])
            kw = dict(S=S, tau_exp=te, N_sigma=ns)
            rel = rng.choice(["fft", "shift", "scale", "scale", "rename", "permute", "addconst", "mulconst"])
            factor = 1.0
            spec2, kw2, ens2 = [tuple(s) for s in spec], dict(kw), ens
            if rel == "fft":
                kw["fft"], kw2["fft"] = True, False
            elif rel == "shift":
                b = rng.choice([-3, 1, 17, 1000, 10 ** 6])
                if min(s[1][0] for s in spec) + b < 0:
                    b = abs(b)
                spec2 = [(n_, [c + b for c in cf], d, f) for n_, cf, d, f in spec]
            elif rel == "scale":
                a = rng.choice([2, 3, 10])
                spec2 = [(n_, [a * c for c in cf], d, f) for n_, cf, d, f in spec]
            elif rel == "rename":
                ens2 = "Zq" + ens
                spec2 = [("%s|x%d" % (ens2, 9 - k), cf, d, f) for k, (n_, cf, d, f) in enumerate(spec)]
            elif rel == "permute":
                spec2 = list(reversed(spec))
            elif rel == "addconst":
                k_ = float(rng.choice([1, -7, 1000]))
                spec2 = [(n_, cf, [x + k_ for x in d], f) for n_, cf, d, f in spec]
            else:
                c_ = float(rng.choice([2, -3, 0.5, -0.25]))
                factor = abs(c_)
                spec2 = [(n_, cf, [x * c_ for x in d], f) for n_, cf, d, f in spec]
            oa, ob = build(pe, rng, spec), build(pe, rng, spec2)
            ra = rb = False
            try:
                oa.gamma_method(**kw)
            except Exception:
                ra = True
            try:
                ob.gamma_method(**kw2)
            except Exception:
                rb = True
            scale = max([1e-300] + [float(np.max(np.abs(oa.deltas[r]))) for r in oa.deltas])
            term = "(mkMCase %s %s %s tol30 %s)" % (qlit(factor), gimpl(oa, ens, ra), gimpl(ob, ens2, rb), qlit(scale * 2.0 ** -30))
            lay = {n_: ("range" if obsutil.is_uniform(cf) else "list", len(cf)) for n_, cf, d, f in spec}
            descr = {"relation": rel, "layout": lay, "gap": gap, "data": dk, "S": S, "tau_exp": te, "N_sigma": ns,
                     "a": "raised" if ra else {"W": int(oa.e_windowsize[ens]), "dvalue": float(oa.e_dvalue[ens]), "len_rho": len(oa.e_rho[ens])},
                     "b": "raised" if rb else {"W": int(ob.e_windowsize[ens2]), "dvalue": float(ob.e_dvalue[ens2]), "len_rho": len(ob.e_rho[ens2])}}
            idlkind = "list" if any(v[0] == "list" for v in lay.values()) else "range"
            mc.append({"term": term, "descr": descr, "key": "invariance:%s:%s-idl" % (rel, idlkind),
                       "what": "gamma_method is not invariant under '%s' (%s-type configuration lists): %s vs %s" % (rel, idlkind, descr["a"], descr["b"]),
                       "replay": {"descr": descr, "spec": [(n_, cf, d, f) for n_, cf, d, f in spec], "spec2": [(n_, cf, d, f) for n_, cf, d, f in spec2], "kwargs": kw, "kwargs2": kw2}})
            ctx.count("relation:" + rel); ctx.count("idl:" + idlkind); ctx.count("tau_exp:%s" % te)
            ctx.case((rel, repr(lay), S, te, ns, tuple(spec[0][2][:4])), nontrivial=True, sample=descr if len(ctx.samples) < 3 else None)

        # ------------------------------------------------------------ histories
        nh = 60 if quick else 1000
        ens_pool = ["A", "ens", "B7"]
        for i in range(nh):
            reset()
            ens = rng.choice(ens_pool)
            cf = c02.gen_common_spacing_cfgs(rng, rng.randint(12, 40), rng.choice(["contiguous", "gapped"]), 1)
            data = c02.gen_chain_data(rng, len(cf), rng.choice(["ar1", "white"]))
            o = build(pe, rng, [(ens, cf, data, "list")])
            other = build(pe, rng, [(rng.choice(ens_pool), cf, data[::-1], "list")])
            ops_t, ops_d = [], []
            for step in range(rng.randint(2, 9)):
                k = rng.choice(["global", "dict", "dict", "del", "other", "other", "arith", "self"])
                which = rng.randrange(3)
                attr = ["S", "tau_exp", "N_sigma"][which]
                v = float(rng.choice([0, 0.5, 1, 1.5, 2, 3]) if which == 0 else rng.choice([0, 2, 4]) if which == 1 else rng.choice([0, 1, 2]))      # 0 is a legal setting of each parameter
                e = rng.choice(ens_pool)
                if k == "global":
                    setattr(pe.Obs, attr + "_global", v); ops_t.append("(SetGlobal %d%%nat %s)" % (which, qlit(v)))
                elif k == "dict":
                    getattr(pe.Obs, attr + "_dict")[e] = v; ops_t.append("(SetDict %d%%nat %s %s)" % (which, coq_string(e), qlit(v)))
                elif k == "del":
                    getattr(pe.Obs, attr + "_dict").pop(e, None); ops_t.append("(DelDict %d%%nat %s)" % (which, coq_string(e)))
                elif k == "other":
                    other.gamma_method(**rng.choice([{}, {"S": 1.0}, {"tau_exp": 2.0, "N_sigma": 2}, {"fft": False}])); ops_t.append("OtherAnalysis")
                elif k == "self":
                    o.gamma_method(**rng.choice([{}, {"S": 3.0}, {"tau_exp": 4.0}, {"S": 0.5, "fft": False}])); ops_t.append("OtherAnalysis")
                else:
                    tmp = (o * 2 + other) * o
                    tmp.gamma_method(); ops_t.append("OtherAnalysis")
                ops_d.append(k)
            args = {}
            for which, attr in enumerate(["S", "tau_exp", "N_sigma"]):
                if rng.random() < 0.35:
                    args[attr] = float(rng.choice([0.5, 1, 2, 3]) if which == 0 else rng.choice([0, 2]) if which == 1 else rng.choice([0, 1, 2]))
            before = (repr(float(o.value)), o.deltas[ens].tobytes(), repr(o.idl[ens]), list(o.names))
            raised = False
            try:
                o.gamma_method(**args)
            except Exception:
                raised = True
            after = (repr(float(o.value)), o.deltas[ens].tobytes(), repr(o.idl[ens]), list(o.names))
            if before != after:
                ctx.fail("history:analysis-alters-object", "gamma_method altered the central value / fluctuations / configuration list of the observable", {"history": ops_d, "args": args})
            if raised:
                ctx.skip("history: analysis raised (e.g. tau_exp on a short chain)")
                continue
            eff = (float(o.S[ens]), float(o.tau_exp[ens]), float(o.N_sigma[ens]))
            hc.append({"term": "(mkHCase (mkGState 2 0 1 [] [] []) [%s] (%s, %s, %s) %s (mkParams %s %s %s))" % (
                "; ".join(ops_t), *[("(Some %s)" % qlit(args[a_]) if a_ in args else "None") for a_ in ("S", "tau_exp", "N_sigma")], coq_string(ens), *[qlit(x) for x in eff]),
                "descr": {"history": ops_d, "args": args, "ensemble": ens, "effective_in_impl": eff}, "key": "history:precedence",
                "what": "effective parameters %s after history %s with arguments %s violate 'explicit argument over per-ensemble dictionary over global default'" % (eff, ops_d, args),
                "replay": {"history": ops_d, "ops": ops_t, "args": args, "ensemble": ens, "effective_in_impl": eff}})
            # the outcome equals that of a fresh copy analysed with the effective parameters given explicitly, and is repeatable
            fresh = build(pe, rng, [(ens, cf, data, "list")])
            saved_state = (pe.Obs.S_global, pe.Obs.tau_exp_global, pe.Obs.N_sigma_global, dict(pe.Obs.S_dict), dict(pe.Obs.tau_exp_dict), dict(pe.Obs.N_sigma_dict))
            reset()
            fresh.gamma_method(S=eff[0], tau_exp=eff[1], N_sigma=eff[2])
            pe.Obs.S_global, pe.Obs.tau_exp_global, pe.Obs.N_sigma_global = saved_state[:3]
            pe.Obs.S_dict.update(saved_state[3]); pe.Obs.tau_exp_dict.update(saved_state[4]); pe.Obs.N_sigma_dict.update(saved_state[5])
            t1 = gimpl(o, ens)
            o.gamma_method(**args)
            if gimpl(o, ens) != t1:
                ctx.fail("history:not-repeatable", "repeating gamma_method with the same arguments gives different numbers", {"history": ops_d, "args": args})
            scale = max(1e-300, float(np.max(np.abs(o.deltas[ens]))))
            mc.append({"term": "(mkMCase 1 %s %s tol30 %s)" % (gimpl(fresh, ens), t1, qlit(scale * 2.0 ** -30)), "descr": {"relation": "history", "history": ops_d, "args": args},
                       "key": "history:outcome-depends-on-history", "what": "the outcome after history %s differs from a fresh copy analysed with the same effective parameters %s" % (ops_d, eff),
                       "replay": {"history": ops_d, "args": args, "effective": eff, "cfgs": cf, "data": data}})
            # deriving from an analysed object vs a fresh copy
            d1, d2 = (o * 3 - 1), (fresh * 3 - 1)
            if d1.deltas[ens].tobytes() != d2.deltas[ens].tobytes() or d1.value != d2.value or d1.idl[ens] != d2.idl[ens]:
                ctx.fail("history:derive-depends-on-cache", "deriving from an analysed object differs from deriving from a never-analysed copy", {"history": ops_d})
            ctx.count("history ops", len(ops_d))
            ctx.case(("history", tuple(ops_d), tuple(sorted(args.items())), ens), nontrivial=True)
    finally:
        pe.Obs.S_global, pe.Obs.tau_exp_global, pe.Obs.N_sigma_global = saved[:3]
        pe.Obs.S_dict.clear(); pe.Obs.S_dict.update(saved[3]); pe.Obs.tau_exp_dict.clear(); pe.Obs.tau_exp_dict.update(saved[4]); pe.Obs.N_sigma_dict.clear(); pe.Obs.N_sigma_dict.update(saved[5])
    (bm,) = common.judge_cases(ctx, "C03m", HDR, "mcase", [c["term"] for c in mc], ["mcase_ok"], shard=60)
    common.settle(ctx, "metamorphic", mc, [], bm, "n/a")
    (bh,) = common.judge_cases(ctx, "C03h", HDR, "hcase", [c["term"] for c in hc], ["hcase_ok"], shard=100)
    common.settle(ctx, "histories", hc, [], bh, "n/a")


def replay(ctx, doc):
    run(ctx)
