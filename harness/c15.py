"""C15 -- correlator derived quantities equal their defining formulas where defined (DESIGN §3 C15)."""
import itertools
import math
import os
import sys

from harness import common, obsutil
from harness.common import qlit
from harness import c01

LEVEL = "proof"

HDR = """From Coq Require Import ZArith QArith List Bool String.
From PV Require Import Base.QAux Corr.Stencil Corr.StencilSpec.
From PVG Require Import StencilGen.
Import ListNotations.
Open Scope Q_scope.
"""
HDR_D = c01.HDR

DERIV = {"deriv": ["symmetric", "forward", "backward", "improved"], "second_deriv": ["symmetric", "big_symmetric", "improved"]}
MEFF = {"log": 0, "logsym": 1, "arccosh": 2}


# ------------------------------------------------------------------ documented formulas (spec side, written from the docstrings)
def _doc(fn, variant, T):
    """-> (offsets referenced, function of the list of referenced values in that order) ; t and T enter only for cosh/sinh"""
    import autograd.numpy as anp
    if fn == "deriv":
        return {"symmetric": ([-1, 1], lambda v: 0.5 * (v[1] - v[0])),
                "forward": ([0, 1], lambda v: v[1] - v[0]),
                "backward": ([-1, 0], lambda v: v[1] - v[0]),
                "improved": ([-2, -1, 1, 2], lambda v: (v[0] - 8 * v[1] + 8 * v[2] - v[3]) / 12),
                "log": ([-1, 0, 1], lambda v: v[1] * 0.5 * (anp.log(v[2]) - anp.log(v[0])))}[variant]
    if fn == "second_deriv":
        return {"symmetric": ([-1, 0, 1], lambda v: v[2] - 2 * v[1] + v[0]),
                "big_symmetric": ([-2, 0, 2], lambda v: (v[2] - 2 * v[1] + v[0]) / 4),
                "improved": ([-2, -1, 0, 1, 2], lambda v: (-v[4] + 16 * v[3] - 30 * v[2] + 16 * v[1] - v[0]) / 12),
                "log": ([-1, 0, 1], lambda v: v[1] * ((anp.log(v[2]) - 2 * anp.log(v[1]) + anp.log(v[0])) + (0.5 * (anp.log(v[2]) - anp.log(v[0]))) ** 2))}[variant]
    if fn == "m_eff":
        return {"log": ([0, 1], lambda v: anp.log(v[0] / v[1])),
                "logsym": ([-1, 1], lambda v: anp.log(v[0] / v[1]) / 2),
                "arccosh": ([-1, 0, 1], lambda v: anp.arccosh((v[2] + v[0]) / (2 * v[1])))}[variant]
    raise KeyError(fn)


def _cosh_root(variant, t, T, r):
    """independent solution of g(m (t - T/2)) / g(m (t + 1 - T/2)) = r and dm/dr"""
    import scipy.optimize
    g = math.cosh if variant in ("cosh", "periodic") else math.sinh
    dg = math.sinh if variant in ("cosh", "periodic") else math.cosh
    a, b = t - T / 2, t + 1 - T / 2

    def F(m):
        return g(m * a) / g(m * b) - r
    grid = [1e-3 * 1.3 ** k for k in range(40)]
    m = None
    for lo, hi in zip(grid, grid[1:]):
        try:
            if F(lo) * F(hi) < 0:
                m = scipy.optimize.brentq(F, lo, hi, xtol=1e-15, rtol=1e-15)
                break
        except (OverflowError, ZeroDivisionError):
            break
    if m is None:
        return None
    dF = (a * dg(m * a) * g(m * b) - b * dg(m * b) * g(m * a)) / g(m * b) ** 2
    return m, 1.0 / dF


def _impl_outcome(call, post=None):
    try:
        r = call()
    except ValueError:
        return "IAllUndefined", None
    except Exception as e:
        return "IRaises", repr(e)
    out = []
    for item in r.content:
        if item is None:
            out.append(None)
        else:
            v = float(item[0].value)
            if math.isinf(v):
                out.append("inf")
            elif not math.isfinite(v):
                out.append("nan")
            else:
                out.append(post(v) if post else v)
    return out, r


def _content_term(vals):
    return "[" + "; ".join("None" if v is None else "(Some %s)" % qlit(v) for v in vals) + "]"


def _impl_term(o):
    if isinstance(o, str):
        return o
    return "(IResult [" + "; ".join("None" if v is None else "(Some %s)" % qlit(v) for v in o) + "])"


def _mk_corr(pe, obs, pattern):
    return pe.Corr([None if not keep else o for o, keep in zip(obs, pattern)])


def run(ctx):
    import numpy as np
    import autograd
    pe = common.import_pyerrors()
    import builtins
    import pyerrors.fits as _pf
    _pf.print = lambda *a, **k: None      # least_squares prints progress; keep the check's output to its own lines
    rng = ctx.rng
    quick = ctx.tier == "quick"
    sys.path.insert(0, common.VERIF)
    from translate import t_stencil
    ctx.rule = ("T-stencil regenerates every deriv / second_deriv / m_eff(log, logsym, arccosh) loop from correlators.py; per variant the regenerated record is proved equal to the documented stencil; "
                "value level: ALL 2^T None patterns for T=6 (quick) / T<=9 (thorough) and random patterns for T up to 24, positive and sign-changing data with exact zeros, every variant incl. log variants, "
                "cosh/periodic/sinh and plateau(fit|avg) over all ranges; observable level: value, every fluctuation and replica means of randomly chosen defined timeslices against the documented formula "
                "(C01 judgement); distinct by (variant, T, pattern, first values)")
    ctx.trusted += ["translate/t_stencil.py (which source text becomes which stencil record)", "autograd differentiates the harness's own transcription of the documented formulas (spec gradients)",
                    "scipy brentq solves the documented cosh/sinh ratio equation independently (oracle for the root); fsolve inside find_root is outside the model"]
    ctx.assumptions += ["tolerance 2^-30 (2^-20 for the root-finder variants and fitted plateaus)"]

    # ---------------------------------------------------------------- (T) regenerate and re-prove
    src = open(os.path.join(common.REPO, "pyerrors", "correlators.py")).read()
    gen_ok = True
    try:
        txt, names = t_stencil.translate_stencils(src)
        p = ctx.write("StencilGen.v", txt)
        ok, so, se, _ = common.coqc(p, ctx.gendir)
        ctx.obligation("T-stencil:StencilGen.v compiles", ok, se[-600:])
        gen_ok = ok
    except t_stencil.TranslateError as e:
        ctx.obligation("T-stencil:translate correlators.py", False, str(e))
        gen_ok = False
        names = {}
    common.tie_pycore(ctx, ["Tie_plateau.v", "Tie_meffroot.v"])        # the averaging branch of Corr.plateau and the loop of the root variants of m_eff, regenerated
    broken_variants = set()
    if gen_ok:
        files = sorted(f for f in os.listdir(os.path.join(common.PROPS, "C15")) if f.endswith(".v"))
        for f in files:
            ok, _, _ = ctx.copy_props(os.path.join("C15", f)) if False else _copy_compile(ctx, f)
            if not ok:
                broken_variants.add(f[:-2])

    # ---------------------------------------------------------------- (X) value level: None patterns
    def base_obs(T, kind):
        lay = {"ens|r1": list(range(1, 8)), "ens|r2": [2, 4, 6, 8, 10, 12]} if rng.random() < 0.3 else {"ens": list(range(1, 8))}
        out = []
        for t in range(T):
            if kind == "positive":
                o = obsutil.make_obs(pe, rng, lay, "positive") * (0.6 ** t) * 8 + 0.0
            elif kind == "cosh":
                o = obsutil.make_obs(pe, rng, lay, "positive") * 0.01 + math.cosh(0.35 * (t - T / 2))
            elif kind == "sinh":
                o = obsutil.make_obs(pe, rng, lay, "positive") * 0.002 + math.sinh(0.35 * (T / 2 - t)) + (0.5 if t == T / 2 else 0.0)
            else:
                o = obsutil.make_obs(pe, rng, lay, "int")
                if rng.random() < 0.15:
                    o = o - o.value   # exact zero central value
            out.append(o)
        return out

    sc, mc = [], []
    Ts_exh = [6] if quick else [5, 6, 7, 8, 9]
    nrand = 40 if quick else 600
    patterns = []
    for T in Ts_exh:
        patterns += [(T, p) for p in itertools.product([True, False], repeat=T)]
    for _ in range(nrand):
        T = rng.randint(4, 16 if quick else 24)
        patterns.append((T, tuple(rng.random() < 0.75 for _ in range(T))))
    obs_cache = {}
    for T, pat in patterns:
        if not any(pat):
            continue
        kind = rng.choice(["positive", "signed"])
        key = (T, kind, rng.randint(0, 2))
        if key not in obs_cache:
            obs_cache[key] = base_obs(T, kind)
        obs = obs_cache[key]
        corr = _mk_corr(pe, obs, pat)
        vals = [None if not k else float(o.value) for o, k in zip(obs, pat)]
        for fn, vs in DERIV.items():
            for v in vs:
                if gen_ok and v not in names.get(fn, []):
                    continue
                out, _ = _impl_outcome(lambda: getattr(corr, fn)(v))
                if not isinstance(out, str) and ("nan" in out or "inf" in out):
                    ctx.skip("non-finite value in implementation result")
                    continue
                model = "st_%s_%s" % (fn, v) if gen_ok else "spec_%s_%s" % (fn, v)
                term = "(mkSC %s spec_%s_%s %s %s tol30 %s)" % (model, fn, v, _content_term(vals), _impl_term(out), qlit(2.0 ** -30 * max(1.0, max(abs(x) for x in vals if x is not None))))
                descr = {"method": fn, "variant": v, "T": T, "pattern": ["x" if k else "-" for k in pat], "values": vals, "impl": out if not isinstance(out, str) else out}
                sc.append({"term": term, "descr": descr, "key": "%s:%s:%s" % (fn, v, "raises-on-undefined-slice" if out == "IRaises" else "wrong-slice-or-value"),
                           "what": "%s('%s') on T=%d with undefined pattern %s: implementation %s; documented formula/definedness says otherwise" % (
                               fn, v, T, "".join(descr["pattern"]), "raises an exception" if out == "IRaises" else "returns other slices/values"),
                           "replay": descr})
                ctx.count("%s:%s" % (fn, v)); ctx.count("outcome:" + (out if isinstance(out, str) else "IResult"))
                ctx.case((fn, v, T, pat, tuple(vals[:3])), nontrivial=not all(pat))
        for v, code in MEFF.items():
            if gen_ok and v not in names.get("m_eff", []):
                continue
            post = {0: math.exp, 1: lambda y: math.exp(2 * y), 2: math.cosh}[code]
            out, _ = _impl_outcome(lambda: corr.m_eff(v), post)
            if not isinstance(out, str):
                out = [None if x == "nan" else x for x in out]   # NaN -> undefined is part of the documented behaviour (_apply_func_to_corr)
                if "inf" in out:
                    # an infinite central value is not "undefined": the timeslice is reported as defined although the formula has no real value
                    tt = out.index("inf")
                    ctx.fail("m_eff:%s:defined-with-infinite-value" % v, "m_eff('%s') returns an observable with an infinite central value at t=%d (T=%d, values %s): the documented formula has no real value there and the timeslice must be undefined" % (v, tt, T, vals),
                             {"method": "m_eff", "variant": v, "T": T, "t": tt, "values": vals})
                    continue
            model = "ms_m_eff_%s" % v if gen_ok else "spec_m_eff_%s" % v
            # skip patterns where the argument of arccosh is within 2^-40 of its domain boundary 1 on some timeslice: the exact argument (model) and the
            # rounded one (implementation) may then fall on different sides, e.g. three values in arithmetic progression give exactly 1.0 in floating point
            if v == "arccosh":
                from fractions import Fraction
                near = False
                for t in range(1, T - 1):
                    if vals[t - 1] is None or vals[t] is None or vals[t + 1] is None or vals[t] == 0:
                        continue
                    arg = (Fraction(vals[t + 1]) + Fraction(vals[t - 1])) / (2 * Fraction(vals[t]))
                    if abs(arg - 1) <= Fraction(1, 2 ** 40):
                        near = True
                if near:
                    ctx.skip("m_eff arccosh: argument at the domain boundary")
                    continue
            term = "(mkMC %s spec_m_eff_%s %d%%nat %s %s tol20 tol20)" % (model, v, code, _content_term(vals), _impl_term(out))
            descr = {"method": "m_eff", "variant": v, "T": T, "pattern": ["x" if k else "-" for k in pat], "values": vals, "impl": out}
            mc.append({"term": term, "descr": descr, "key": "m_eff:%s:%s" % (v, "raises" if out == "IRaises" else "wrong-slice-or-value"),
                       "what": "m_eff('%s') on T=%d with undefined pattern %s: implementation %s; documented formula/definedness says otherwise" % (
                           v, T, "".join(descr["pattern"]), "raises an exception" if out == "IRaises" else "returns other slices/values"), "replay": descr})
            ctx.count("m_eff:" + v); ctx.case(("m_eff", v, T, pat, tuple(vals[:3])), nontrivial=not all(pat))
    if sc:
        hdr = HDR if gen_ok else HDR.replace("From PVG Require Import StencilGen.\n", "")    # failing-input search against the specification alone
        bm, bs = common.judge_cases(ctx, "C15s", hdr, "scase", [c["term"] for c in sc], ["scase_model_ok", "scase_spec_ok"], shard=150)
        common.settle(ctx, "stencils", sc, bm, bs, "regenerated stencils (run in Coq) reproduce deriv/second_deriv on every generated None pattern")
    if mc:
        hdr = HDR if gen_ok else HDR.replace("From PVG Require Import StencilGen.\n", "")
        bm, bs = common.judge_cases(ctx, "C15m", hdr, "mcase", [c["term"] for c in mc], ["mcase_model_ok", "mcase_spec_ok"], shard=150)
        common.settle(ctx, "m_eff", mc, bm, bs, "regenerated m_eff loops (run in Coq) reproduce m_eff(log|logsym|arccosh) on every generated None pattern")

    def check_defined(fam, v, res, obs, pat, T, offs, f):
        """definedness: exactly where every referenced slice is defined and the documented formula has a real value"""
        for t in range(T):
            refd = all(0 <= t + k < T and pat[t + k] for k in offs)
            if (res is not None and res.content[t] is not None) and not refd:
                ctx.fail("%s:%s:defined-where-reference-undefined" % (fam, v), "%s('%s') is defined at t=%d although a referenced timeslice is undefined" % (fam, v, t),
                         {"method": fam, "variant": v, "T": T, "pattern": pat, "t": t})
            if refd:
                # ... and the documented formula has a real value there (logarithm of a positive number, arccosh of a number >= 1)
                vv = np.array([float(obs[t + k].value) for k in offs])
                with np.errstate(all="ignore"):
                    try:
                        y = float(f(vv))
                    except Exception:
                        y = float("nan")
                if (res is not None and res.content[t] is not None) and not math.isfinite(y):
                    ctx.fail("%s:%s:defined-without-real-value" % (fam, v), "%s('%s') is defined at t=%d although the documented formula has no real value for the central values %s" % (fam, v, t, vv.tolist()),
                             {"method": fam, "variant": v, "T": T, "pattern": pat, "t": t, "referenced_values": vv.tolist(), "impl_value": float(res.content[t][0].value)})
                if (res is None or res.content[t] is None) and math.isfinite(y):
                    ctx.fail("%s:%s:undefined-although-formula-real" % (fam, v), "%s('%s') is undefined at t=%d although every referenced timeslice is defined and the documented formula gives %r" % (fam, v, t, y),
                             {"method": fam, "variant": v, "T": T, "pattern": pat, "t": t, "referenced_values": vv.tolist()})

    # ---------------------------------------------------------------- (X) observable level: identity between observables
    dc = []
    nobs = 60 if quick else 600
    nroot = 18 if quick else 150
    for i in range(nobs + nroot):
        T = rng.randint(6, 14)
        kind = rng.choice(["positive", "positive", "cosh"])
        fam = rng.choice(["deriv", "deriv", "second_deriv", "second_deriv", "m_eff", "m_eff", "plateau", "plateau"])
        if fam in ("deriv", "second_deriv", "m_eff") and rng.random() < 0.35:
            kind = "signed"        # sign-changing integers, exact zeros included: the logarithmic variants are undefined on part of the timeslices
        if i >= nobs:
            # root-finder variants: even and odd T alike (the midpoint T/2 is a half-integer for odd T)
            fam, kind, T = "root", "cosh", [7, 8, 9, 10, 11, 13][i % 6]
            if (i // 6) % 3 == 2 and (i // 18) % 3 != 2:
                kind = "sinh"        # data that do have a sinh root on every timeslice away from the midpoint
        obs = base_obs(T, kind)
        pat = tuple(rng.random() < 0.85 for _ in range(T))
        if fam == "root" and (i // 6) % 3 == 2 and i % 2 == 0:
            hole = T // 2 + rng.choice([-1, 0, 1])        # an undefined timeslice next to the midpoint
            pat = tuple(k and j != hole for j, k in enumerate(pat))
        corr = _mk_corr(pe, obs, pat)
        try:
            if fam in ("deriv", "second_deriv", "m_eff"):
                v = rng.choice({"deriv": DERIV["deriv"] + ["log"], "second_deriv": DERIV["second_deriv"] + ["log"], "m_eff": list(MEFF)}[fam])
                offs, f = _doc(fam, v, T)
                try:
                    res = getattr(corr, fam)(v)
                except ValueError:
                    ctx.skip("observable level: all undefined")
                    continue
                except Exception:
                    # a result that is undefined on every timeslice may be refused with any exception (the property speaks about defined slices)
                    if not any(all(0 <= t + k < T and pat[t + k] for k in offs) for t in range(T)):
                        ctx.skip("observable level: all undefined")
                        continue
                    raise
                ts = [t for t in range(T) if res.content[t] is not None]
                check_defined(fam, v, res, obs, pat, T, offs, f)
                if not ts:
                    continue
                t = rng.choice(ts)
                ops = [obs[t + k] for k in offs]
                r = res.content[t][0]
                vs = [float(o.value) for o in ops]
                val = float(f(np.array(vs)))
                gs = [float(g) for g in autograd.grad(f)(np.array(vs))]
                fl = (lambda f_: (lambda v_: float(f_(np.array(v_)))))(f)
                rt = "tol30"
                name = "%s('%s') at t=%d" % (fam, v, t)
            elif fam == "root":
                v = ["cosh", "periodic", "sinh"][(i // 6) % 3]
                if not any(pat[t] and pat[t + 1] for t in range(T - 1)):
                    ctx.skip("observable level: all undefined")
                    continue
                res = corr.m_eff(v)
                # every output timeslice references C(t) and C(t+1): defined only where both are (the filled midpoint slices of sinh included)
                for tt in range(T - 1):
                    if res.content[tt] is not None and not (pat[tt] and pat[tt + 1]):
                        ctx.fail("m_eff:%s:defined-where-reference-undefined" % v, "m_eff('%s') is defined at t=%d (T=%d) although a referenced timeslice is undefined" % (v, tt, T),
                                 {"method": "m_eff", "variant": v, "T": T, "pattern": pat, "t": tt})
                if v == "sinh" and T % 2 == 0:
                    # the two midpoint slices carry the entry of their predecessor (documented fill), nothing else
                    for tt in (T // 2 - 1, T // 2):
                        if 1 <= tt < T - 1 and res.content[tt] is not None:
                            prev = res.content[tt - 1]
                            if prev is None or float(prev[0].value) != float(res.content[tt][0].value):
                                ctx.fail("m_eff:sinh:midpoint-fill", "m_eff('sinh') at the midpoint slice t=%d (T=%d) is not the entry of its predecessor" % (tt, T),
                                         {"method": "m_eff", "variant": v, "T": T, "pattern": pat, "t": tt})
                ts = [t for t in range(T - 1) if res.content[t] is not None and not (v == "sinh" and t in (T / 2, T / 2 - 1))]
                if not ts:
                    continue
                # definedness on every defined timeslice: no real solution by sign (sinh(m a) / sinh(m b) has the sign of a * b for every m > 0 and is
                # -1 for every m when t < T/2 < t+1; cosh ratios are positive) or by range (the ratio runs monotonically from its m -> 0 limit,
                # 1 for cosh and a / b for sinh, to infinity for |a| > |b| or to zero for |a| < |b|)
                nosol = set()
                for tt in ts:
                    a_, b_, r_ = tt - T / 2, tt + 1 - T / 2, float(obs[tt].value) / float(obs[tt + 1].value)
                    if (v == "sinh" and a_ * b_ > 0 and r_ < 0) or (v == "sinh" and a_ * b_ < 0 and (r_ > 0 or abs(r_ + 1) > 1e-6)) or (v != "sinh" and r_ <= 0):
                        nosol.add(tt)
                        ctx.fail("observable-level:defined-without-solution:m_eff:" + v,
                                 "m_eff('%s') is defined at t=%d (T=%d) although the ratio C(t)/C(t+1) = %r admits no real solution of the documented equation" % (v, tt, T, r_),
                                 {"variant": v, "t": tt, "T": T, "ratio": r_, "pattern": pat})
                        continue
                    if v == "sinh" and a_ * b_ <= 0:
                        continue
                    lim_ = 1.0 if v != "sinh" else a_ / b_
                    if (r_ - lim_) * (abs(a_) - abs(b_)) < -1e-6 * abs(lim_):
                        nosol.add(tt)
                        ctx.fail("observable-level:defined-without-solution:ratio-out-of-range:m_eff",
                                 "m_eff('%s') is defined at t=%d (T=%d) although the ratio C(t)/C(t+1) = %r lies outside the range of the documented ratio (no real solution)" % (v, tt, T, r_),
                                 {"variant": v, "t": tt, "T": T, "ratio": r_, "limit_at_m_0": lim_, "pattern": pat})
                ts = [x for x in ts if x not in nosol]
                if not ts:
                    continue
                t = rng.choice(ts)
                mid = [x for x in (T // 2 - 1, T // 2) if x in ts]
                if v == "sinh" and mid:
                    t = mid[0]        # for odd T the timeslice below the midpoint is an ordinary root (nothing is filled in): always judged
                ops = [obs[t], obs[t + 1]]
                r = res.content[t][0]
                vs = [float(o.value) for o in ops]
                sol = _cosh_root(v, t, T, vs[0] / vs[1])
                if sol is None:
                    ctx.skip("root: independent solver found no bracket")
                    continue
                m, dmdr = sol
                sgn = 1.0 if m >= 0 else -1.0
                val = abs(m)
                gs = [sgn * dmdr / vs[1], -sgn * dmdr * vs[0] / vs[1] ** 2]

                def fl(v_, t=t, T=T, v=v):
                    s = _cosh_root(v, t, T, v_[0] / v_[1])
                    if s is None:
                        raise ValueError
                    return abs(s[0])
                rt = "tol20"
                name = "m_eff('%s') at t=%d (T=%d)" % (v, t, T)
            else:
                a = rng.randint(0, T - 2)
                b = rng.randint(a, T - 1)
                if not any(pat[a:b + 1]):
                    continue
                method = rng.choice(["fit", "avg", "mean"])
                corr.gamma_method()
                use_prange = rng.random() < 0.3
                # the same range object serves two calls: the second result must be the documented average over [a, b] again
                rlist = [a, b]
                if use_prange:
                    corr.set_prange(rlist)
                    corr.plateau(method=method)
                    r = corr.plateau(method=method)
                else:
                    corr.plateau(rlist, method=method)
                    r = corr.plateau(rlist, method=method)
                if rlist != [a, b] or (use_prange and list(corr.prange) != [a, b]):
                    ctx.fail("plateau:modifies-range", "plateau(method=%s) changed the range it was given from [%d, %d] to %s" % (method, a, b, rlist if rlist != [a, b] else list(corr.prange)),
                             {"T": T, "pattern": pat, "range": [a, b], "method": method, "via_prange": use_prange})
                idx = [t for t in range(a, b + 1) if pat[t]]
                ops = [obs[t] for t in idx]
                vs = [float(o.value) for o in ops]
                if method == "fit":
                    w = [1.0 / float(o.dvalue) ** 2 for o in ops]
                    gs = [x / sum(w) for x in w]
                    rt = "tol20"
                else:
                    gs = [1.0 / len(ops)] * len(ops)
                    rt = "tol30"
                val = sum(g * x for g, x in zip(gs, vs))
                fl = (lambda gs_: (lambda v_: sum(g * x for g, x in zip(gs_, v_))))(gs)
                name = "plateau([%d,%d], method=%s%s), %d defined slices" % (a, b, method, ", via prange" if use_prange else "", len(ops))
        except Exception as e:
            ctx.fail("observable-level:raises:" + fam, "%s raised %r on a correlator with pattern %s" % (fam, e, "".join("x" if k else "-" for k in pat)),
                     {"family": fam, "T": T, "pattern": pat})
            continue
        if not all(math.isfinite(g) for g in gs) or not math.isfinite(val):
            ctx.skip("non-finite spec value/gradient")
            continue
        try:
            rvals = c01._rvals(ops, fl)
        except Exception:
            ctx.skip("spec function undefined on a replica mean")
            continue
        atol = c01._scale(ops, gs, val) * (2.0 ** -30 if rt == "tol30" else 2.0 ** -18)
        try:
            term = c01._case_term([obsutil.obs_term(o) for o in ops], val, rvals, gs, obsutil.obs_term(r), rt, atol)
        except ValueError:
            ctx.skip("non-finite number in implementation result")
            continue
        descr = {"what": name, "T": T, "pattern": "".join("x" if k else "-" for k in pat), "spec_value": val, "spec_grads": gs, "impl_value": float(r.value)}
        dc.append({"term": term, "descr": descr, "core": fam in ("root",) or (fam == "plateau" and "method=fit" in name), "key": "identity:" + name.split(" at ")[0].split(",")[0].split("(")[0] + ":" + (name.split("'")[1] if "'" in name else name.split("method=")[1].split(")")[0].split(",")[0]),
                   "what": "%s is not the documented formula applied to the observables (value / fluctuations / replica means differ)" % name,
                   "replay": {"descr": descr, "operands": [obsutil.obs_struct(o) for o in ops], "impl": obsutil.obs_struct(r)}})
        ctx.count("identity:" + fam)
        ctx.case(("obs", name, T, pat, round(val, 9)), sample={"what": name, "spec_value": val, "impl_value": float(r.value), "spec_grads": gs[:4]})
    # the logarithmic derivative variants on sign-changing data: definedness on every timeslice
    for j in range(16 if quick else 200):
        T = rng.randint(5, 12)
        obs = base_obs(T, "signed")
        pat = tuple(rng.random() < 0.85 for _ in range(T))
        corr = _mk_corr(pe, obs, pat)
        for fam in ("deriv", "second_deriv"):
            offs, f = _doc(fam, "log", T)
            try:
                res = getattr(corr, fam)("log")
            except Exception:
                res = None        # refused as a whole (any exception): allowed only if no output timeslice has a real value, which check_defined decides
            check_defined(fam, "log", res, obs, pat, T, offs, f)
            ctx.case(("log-definedness", fam, T, pat, tuple(float(o.value) for o in obs[:3])), nontrivial=True)
            ctx.count("definedness:%s:log" % fam)
    # a fixed correlator whose ratios leave the range of the cosh / sinh ratio on several timeslices (growing in the first half)
    fixed_vals = [1.0, 1.2, 1.1, 1.3, 1.0, 1.4, 1.2, 1.5]
    fc = pe.Corr([obsutil.make_obs(pe, rng, {"ens": list(range(1, 8))}, "positive") * 0.001 + x for x in fixed_vals])
    import warnings
    for v in ("cosh", "periodic", "sinh"):
        with warnings.catch_warnings():
            warnings.simplefilter("ignore")
            fr = fc.m_eff(v)
        for t in range(7):
            a_, b_ = t - 4.0, t + 1 - 4.0
            if v == "sinh" and a_ * b_ == 0:
                continue
            r_ = float(fc.content[t][0].value) / float(fc.content[t + 1][0].value)
            lim_ = 1.0 if v != "sinh" else a_ / b_
            if (r_ - lim_) * (abs(a_) - abs(b_)) < -1e-6 * abs(lim_) and fr.content[t] is not None:
                ctx.fail("observable-level:defined-without-solution:ratio-out-of-range:m_eff",
                         "m_eff('%s') is defined at t=%d (T=8) although the ratio C(t)/C(t+1) = %r lies outside the range of the documented ratio (no real solution)" % (v, t, r_),
                         {"variant": v, "t": t, "T": 8, "values": fixed_vals, "ratio": r_, "limit_at_m_0": lim_, "impl_value": float(fr.content[t][0].value)})
            ctx.case(("range-fixed", v, t), nontrivial=True)
    if dc:
        bs, bcore = common.judge_cases(ctx, "C15d", HDR_D, "dcase", [c["term"] for c in dc], ["dcase_spec_ok", "dcase_spec_core"], shard=30)
        bad = [i for i in range(len(dc)) if (i in set(bcore) if dc[i]["core"] else i in set(bs))]
        common.settle(ctx, "identities", dc, [], bad, "n/a")


def _copy_compile(ctx, f):
    import shutil
    src = os.path.join(common.PROPS, "C15", f)
    dst = os.path.join(ctx.gendir, "Props_" + f)
    shutil.copy(src, dst)
    return ctx.compile_obligation("props/C15/" + f, dst)


def replay(ctx, doc):
    run(ctx)
