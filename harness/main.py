import argparse
import importlib
import json
import os
import sys
import traceback

sys.path.insert(0, os.path.dirname(os.path.dirname(os.path.abspath(__file__))))
from harness import common


def main():
    ap = argparse.ArgumentParser()
    ap.add_argument("prop")
    ap.add_argument("--tier", default=os.environ.get("VERIF_TIER", "quick"), choices=["quick", "thorough"])
    ap.add_argument("--replay", default=None)
    ap.add_argument("--seed", type=int, default=int(os.environ.get("VERIF_SEED", "0") or 0))
    a = ap.parse_args()
    prop = a.prop.upper()
    common.ensure_library()
    mod = importlib.import_module("harness." + prop.lower())
    ctx = common.Ctx(prop, a.tier, a.seed, level=getattr(mod, "LEVEL", "proof"))
    try:
        if a.replay:
            with open(a.replay) as f:
                doc = json.load(f)
            mod.replay(ctx, doc)
        else:
            mod.run(ctx)
    except SystemExit:
        raise
    except Exception:
        # a crash of the check itself while looking at /repo is a broken tie, never silently green
        tb = traceback.format_exc()
        sys.stdout.write(tb)
        ctx.obligation("harness:%s" % prop, False, tb[-1500:])
    sys.exit(common.finish(ctx))


if __name__ == "__main__":
    main()
