"""Differential test of coq/theories/Py/Prim.v -- the meaning the translator tie gives to Python / numpy operations -- against the real
Python / numpy of this installation: random calls are evaluated here, the same calls are evaluated by Coq (vm_compute) and compared.
Prim.v is part of the trusted base of every tie theorem; this test is what ties it to the interpreter that actually runs pyerrors.
It is a test (a few hundred calls per run), not a proof."""
import itertools
import random

import numpy as np

from harness import common
from harness.common import zlit

HDR = """From Coq Require Import ZArith QArith List Bool String Ascii.
From PV Require Import Base.QAux Obs.Model Py.Prim.
Import ListNotations.
Open Scope Z_scope.
Definition exn_code (e : exn) : Z := match e with IndexError => 1 | ValueError => 2 | ZeroDivisionError => 3 | TypeError => 4 | NameError => 5 end.
Definition rz (r : res Z) : list Z := match r with Ok v => [0; v] | Raise e => [exn_code e] end.
Definition rl (r : res (list Z)) : list Z := match r with Ok v => 0 :: v | Raise e => [exn_code e] end.
Definition qz (l : list Q) : list Z := map (fun q => Qnum (Qred q)) l.        (* integer-valued rationals *)
Definition rq (r : res (list Q)) : list Z := match r with Ok v => 0 :: qz v | Raise e => [exn_code e] end.
Definition zq (l : list Z) : list Q := map inject_Z l.
Definition same (a b : list Z) : bool := zlist_eqb a b.
"""
EXN = {IndexError: 1, ValueError: 2, ZeroDivisionError: 3, TypeError: 4, NameError: 5, KeyError: 5}


def zl(xs):
    return "[" + "; ".join(zlit(int(x)) for x in xs) + "]"


def opt(x):
    return "None" if x is None else "(Some %s)" % zlit(x)


def attempt(f):
    try:
        return [0] + [int(v) for v in np.atleast_1d(np.asarray(f())).ravel()]
    except tuple(EXN) as e:
        for k, c in EXN.items():
            if isinstance(e, k):
                return [c]
        raise


def cases(rng, n):
    out = []        # (coq boolean term, description)

    def add(term, expected, descr):
        out.append(("same %s %s" % (term, zl(expected)), descr))
    for _ in range(n):
        L = [rng.randint(-9, 9) for _ in range(rng.randint(0, 7))]
        i, a, b = rng.randint(-9, 9), rng.randint(-9, 9), rng.randint(-9, 9)
        if rng.random() < 0.08:
            # strings: name.split('|')[0], sorted(list of names), sorted(set(..))
            alpha = "abAB12_|"
            names = ["".join(rng.choice(alpha) for _ in range(rng.randint(0, 5))) for _ in range(rng.randint(0, 5))]
            cs = lambda x: common.coq_string(x) + "%string"
            sl = lambda xs: "[" + "; ".join(cs(x) for x in xs) + "]"
            enc = lambda xs: [ord(c) for x in xs for c in x + "/"]
            flat = "(List.concat (map (fun s_ => map (fun c_ => Z.of_nat (Ascii.nat_of_ascii c_)) (list_ascii_of_string s_) ++ [47]) %s))"
            add(flat % ("(map ens_of %s)" % sl(names)), enc([x.split("|")[0] for x in names]), "split('|')[0] on %r" % names)
            add(flat % ("(py_sorted_strings %s)" % sl(names)), enc(sorted(names)), "sorted(%r)" % names)
            add(flat % ("(ssort_set %s)" % sl(names)), enc(sorted(set(names))), "sorted(set(%r))" % names)
            continue
        k = rng.choice(["index", "slice", "slice_rev", "floordiv", "mod", "range", "sortset", "roll", "bincount", "lindex", "cumsum",
                        "arrzip", "minmax", "inter1d", "slice_set", "slice_add", "store", "perms", "vecmat"])
        if k == "index":
            add("(rz (py_index %s %s))" % (zl(L), zlit(i)), attempt(lambda: L[i]), "l[i] l=%r i=%d" % (L, i))
        elif k == "slice":
            add("(py_slice %s %s %s)" % (zl(L), zlit(a), zlit(b)), L[a:b], "l[a:b] l=%r a=%d b=%d" % (L, a, b))
        elif k == "slice_rev":
            st = rng.choice([None, b])
            if a < -len(L) - 1:
                continue        # the model's lower clip differs from Python's for starts far below -len (never used by the code: start = i - 1 >= 0)
            add("(qz (py_slice_rev (zq %s) %s %s))" % (zl(L), zlit(a), opt(st)), L[a:st:-1], "l[a:stop:-1] l=%r a=%d stop=%r" % (L, a, st))
        elif k == "floordiv":
            add("(rz (py_floordiv %s %s))" % (zlit(a), zlit(b)), attempt(lambda: a // b), "%d // %d" % (a, b))
        elif k == "mod":
            add("(rz (py_mod %s %s))" % (zlit(a), zlit(b)), attempt(lambda: a % b), "%d %% %d" % (a, b))
        elif k == "range":
            s = rng.randint(-3, 3)
            exp = attempt(lambda: list(range(a, b, s)))
            add("(match py_range %s %s %s with Ok r => 0 :: cfgs r | Raise e => [exn_code e] end)" % (zlit(a), zlit(b), zlit(s)), exp, "range(%d,%d,%d)" % (a, b, s))
        elif k == "sortset":
            add("(zsort_set %s)" % zl(L), sorted(set(L)), "sorted(set(%r))" % L)
        elif k == "roll":
            add("(py_roll %s %s)" % (zl(L), zlit(i)), [int(x) for x in np.roll(np.array(L, dtype=object), i)] if L else [], "np.roll(%r, %d)" % (L, i))
        elif k == "bincount":
            o = [rng.randint(-1 if rng.random() < 0.15 else 0, 6) for _ in range(rng.randint(0, 6))]
            m = rng.randint(0, 6)
            add("(rq (py_bincount %s %s))" % (zl(o), zlit(m)), attempt(lambda: np.bincount(np.array(o, dtype=int), minlength=m)), "np.bincount(%r, minlength=%d)" % (o, m))
        elif k == "lindex":
            add("(rz (py_list_index %s %s))" % (zl(L), zlit(i)), attempt(lambda: L.index(i)), "%r.index(%d)" % (L, i))
        elif k == "cumsum":
            add("(qz (arr_cumsum (zq %s)))" % zl(L), [int(x) for x in np.cumsum(L)] if L else [], "np.cumsum(%r)" % L)
        elif k == "arrzip":
            M = [rng.randint(-9, 9) for _ in range(rng.choice([len(L), len(L), 1, rng.randint(0, 7)]))]
            op, f = rng.choice([("py_arr_add2", np.add), ("py_arr_sub2", np.subtract), ("py_arr_mul2", np.multiply)])
            add("(rq (%s (zq %s) (zq %s)))" % (op, zl(L), zl(M)), attempt(lambda: f(np.array(L, dtype=float), np.array(M, dtype=float))), "%s(%r, %r)" % (op, L, M))
        elif k == "minmax":
            add("(rz (py_min %s))" % zl(L), attempt(lambda: min(L)), "min(%r)" % L)
            add("(rz (py_max %s))" % zl(L), attempt(lambda: max(L)), "max(%r)" % L)
        elif k == "inter1d":
            A = sorted(rng.sample(range(-5, 10), rng.randint(0, 6)))
            B = sorted(rng.sample(range(-5, 10), rng.randint(0, 6)))
            add("(py_intersect1d_pos %s %s)" % (zl(A), zl(B)), [int(x) for x in np.intersect1d(A, B, assume_unique=True, return_indices=True)[1]], "intersect1d(%r, %r)[1]" % (A, B))
        elif k in ("slice_set", "slice_add"):
            V = [rng.randint(-9, 9) for _ in range(rng.choice([max(0, min(len(L), b) - max(0, a)), rng.randint(2, 5)]))]
            if len(V) == 1 or a < 0 or b < 0:
                continue        # numpy broadcasts a single value; negative bounds are not used by the code
            arr = np.array(L, dtype=float)

            def do():
                if k == "slice_set":
                    arr[a:b] = np.array(V, dtype=float)
                else:
                    arr[a:b] += np.array(V, dtype=float)
                return arr
            add("(rq (py_%s (zq %s) %s %s (zq %s)))" % (k, zl(L), zlit(a), zlit(b), zl(V)), attempt(do), "a[%d:%d] %s %r on %r" % (a, b, "=" if k == "slice_set" else "+=", V, L))
        elif k == "store":
            arr = np.array(L, dtype=float)

            def do():
                arr[i] = 7.0
                return arr
            add("(rq (py_store (zq %s) %s (inject_Z 7)))" % (zl(L), zlit(i)), attempt(do), "a[%d] = 7 on %r" % (i, L))
        elif k == "perms":
            m = rng.randint(0, 3)
            flat = [x for p in itertools.permutations(range(m)) for x in p]
            add("(List.concat (py_permutations %s))" % zlit(m), flat, "permutations(range(%d))" % m)
        elif k == "vecmat":
            r_, c_ = rng.randint(1, 3), rng.randint(1, 3)
            Mx = [[rng.randint(-4, 4) for _ in range(c_)] for _ in range(r_)]
            v = [rng.randint(-4, 4) for _ in range(rng.choice([r_, r_, rng.randint(1, 3)]))]
            mt = "[" + "; ".join("zq " + zl(row) for row in Mx) + "]"
            add("(rq (py_vecmat (zq %s) %s))" % (zl(v), mt), attempt(lambda: np.array(v, dtype=float) @ np.array(Mx, dtype=float)), "%r @ %r" % (v, Mx))
            w = [rng.randint(-4, 4) for _ in range(rng.choice([c_, c_, rng.randint(1, 3)]))]
            add("(rq (py_matvec %s (zq %s)))" % (mt, zl(w)), attempt(lambda: np.array(Mx, dtype=float) @ np.array(w, dtype=float)), "%r @ %r" % (Mx, w))
    return out


def check(ctx, n=400):
    rng = random.Random("prims/%d" % ctx.seed)
    cs = cases(rng, n)
    txt = HDR + "Definition prim_cases : list bool := [\n  %s].\nEval vm_compute in bad_cases (fun b : bool => b) prim_cases.\n" % ";\n  ".join(t for t, _ in cs)
    p = ctx.write("PrimCases.v", txt)
    ok, so, se, _ = common.coqc(p, ctx.gendir)
    bad = common.parse_z_list(so, 0) if ok else None
    if not ok or bad is None:
        ctx.obligation("X:Py/Prim.v evaluates on the generated calls", False, (se or so)[-800:])
        return
    if bad:
        ctx.obligation("X:Py/Prim.v agrees with Python / numpy on the generated calls", False,
                       "disagreements: " + "; ".join(cs[i][1] for i in bad[:8]))
    else:
        ctx.obligation("X:Py/Prim.v agrees with Python / numpy on %d generated calls" % len(cs), True)
    ctx.count("primitive semantics compared with Python / numpy", len(cs))
