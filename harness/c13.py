"""C13 -- jackknife and bootstrap export/import are exact resampling transforms (DESIGN §3 C13)."""
import hashlib

from harness import common, obsutil
from harness.common import qlit

LEVEL = "proof"

HDR = """From Coq Require Import ZArith QArith List Bool String.
From PV Require Import Base.QAux Obs.Model Obs.Resample.
Import ListNotations.
Open Scope Q_scope.
"""


def _ql(xs):
    return "[" + "; ".join(qlit(float(x)) for x in xs) + "]"


def _one_obs(pe, rng, n, kind, idl_kind):
    import numpy as np
    cfg = obsutil.gen_cfgs(rng, n, idl_kind)
    name = rng.choice(["A", "ens|r1", "B7", "zeta|r02"])
    d = obsutil.gen_data(rng, n, kind)
    form = rng.choice(["list", "range", "array"])
    if form == "range" and obsutil.is_uniform(cfg):
        idl = range(cfg[0], cfg[-1] + 1, cfg[1] - cfg[0])
    elif form == "array":
        idl = np.array(cfg)
    else:
        idl = list(cfg)
    return pe.Obs([np.array(d)], [name], idl=[idl]), name


def run(ctx):
    import numpy as np
    pe = common.import_pyerrors()
    rng = ctx.rng
    quick = ctx.tier == "quick"
    ctx.rule = ("single-replica observables (primary and derived), length 5..64 (quick) / 5..500 (thorough), contiguous/strided/gapped/irregular idl given as list/range/array, "
                "integer, dyadic, AR(1), positive, constant data; jackknife export + import (idl passed) + naive error; bootstrap export with random tables of any shape and with the default "
                "name-seeded table (re-derived independently), import with full-column-rank tables; distinct by (kind, idl kind, n, first samples)")
    ctx.trusted += ["hand-written model Obs/Resample.v tied to obs.py by correspondence", "numpy Generator.integers / md5 (default seeding) and scipy lstsq are oracles"]
    ctx.assumptions += ["tolerance max(2^-30, 64 n |value| 2^-53 / rms(delta)) capped at 2^-12 for the jackknife round trip (binary64 conditioning of (n mean - x)/(n - 1)); 2^-30 (x 2^12 for the lstsq-based import) for the bootstrap"]
    ctx.copy_props()
    common.tie_pycore(ctx, ["Tie_jack.v"])

    njack = 200 if quick else 2000
    nmax = 64 if quick else 500
    jc, bc = [], []
    for i in range(njack):
        n = rng.choice([5, 6, 7, rng.randint(5, nmax), rng.randint(5, nmax)])
        kind = rng.choice(["int", "dyadic", "ar1", "positive", "constant", "int"])
        ik = rng.choice(obsutil.IDL_KINDS)
        o, name = _one_obs(pe, rng, n, kind, ik)
        derived = rng.random() < 0.3
        if derived:
            o = o * o + 3 * o if kind != "constant" else o * 2
        try:
            jacks = o.export_jackknife()
            imp = pe.import_jackknife(jacks, name, idl=[o.idl[name]])
            o2 = o + 0
            o2.gamma_method(S=0)
            naive = float(o2.dvalue) ** 2
        except Exception as e:
            ctx.fail("jackknife:raises", "jackknife export/import raised %r on a single-replica observable" % e,
                     {"obs": obsutil.obs_struct(o)})
            continue
        # conditioning of the transform in binary64: a jackknife sample (n mean - x_i)/(n - 1) carries an absolute error of order n |mean| eps,
        # which the back-transformation multiplies by n - 1 again; relative to the fluctuations that is n |mean| eps / rms(delta)
        dscale = float(np.sqrt(np.mean(np.asarray(o.deltas[name], dtype=float) ** 2)))
        tolv = 2.0 ** -30 if dscale == 0.0 else max(2.0 ** -30, min(2.0 ** -12, 64.0 * n * max(abs(float(o.value)), 1.0) * 2.0 ** -53 / dscale))
        mag = max(1.0, float(np.max(np.abs(np.asarray(o.deltas[name], dtype=float) + float(o.r_values[name])))))
        tol = "%s %s" % (qlit(tolv), qlit(tolv * mag))          # relative, absolute (scaled with the magnitude of the samples)
        term = "(mkJC %s %s %s %s %s %s %s %s %s %s %s)" % (
            qlit(float(o.value)), qlit(float(o.r_values[name])), _ql(o.deltas[name]), _ql(jacks),
            qlit(float(imp.value)), qlit(float(imp.r_values[name])), _ql(imp.deltas[name]), qlit(naive),
            obsutil.idl_term(o.idl[name]), obsutil.idl_term(imp.idl[name]), tol)
        descr = {"kind": kind, "idl": ik, "n": n, "derived": derived}
        jc.append({"term": term, "descr": descr, "key": "jackknife:export-import", 
                   "what": "jackknife export/import of a %s observable (n=%d, %s idl) is not the leave-one-out transform / does not restore the observable / variance != naive error^2" % (kind, n, ik),
                   "replay": {"descr": descr, "obs": obsutil.obs_struct(o), "jacks": [float(x) for x in jacks], "imported": obsutil.obs_struct(imp), "naive_sq": naive}})
        ctx.count("jack:kind:" + kind); ctx.count("jack:idl:" + ik); ctx.count("jack:derived:%s" % derived)
        ctx.case(("jack", kind, ik, n, tuple(float(x) for x in o.deltas[name][:4])), nontrivial=(kind != "constant"),
                 sample={"what": "jackknife", "n": n, "idl": ik, "kind": kind, "jacks[:3]": [float(x) for x in jacks[:3]]})

    nboot = 150 if quick else 1200
    bmax = 24 if quick else 80
    for i in range(nboot):
        n = rng.randint(5, bmax)
        kind = rng.choice(["int", "dyadic", "positive", "int"])
        ik = rng.choice(obsutil.IDL_KINDS)
        o, name = _one_obs(pe, rng, n, kind, ik)
        mode = rng.choice(["table", "table", "default", "import"])
        imp_t = "None"
        try:
            if mode == "default":
                ns = rng.randint(1, 12)
                boots = o.export_bootstrap(samples=ns)
                boots_again = o.export_bootstrap(samples=ns)
                seed = int(hashlib.md5(name.encode()).hexdigest(), 16) & 0xFFFFFFFF
                table = np.random.default_rng(seed).integers(0, n, size=(ns, n))
                # chain consistency: another observable on the same chain gets the same table
                if not np.array_equal(boots, boots_again):
                    ctx.fail("bootstrap:not-repeatable", "export_bootstrap with default seeding is not repeatable", {"obs": obsutil.obs_struct(o), "samples": ns})
            else:
                ns = rng.randint(1, 2 * n) if mode == "table" else rng.randint(n, 2 * n + 3)
                table = np.array([[rng.randrange(n) for _ in range(n)] for _ in range(ns)])
                boots = o.export_bootstrap(samples=ns, random_numbers=table)
                if mode == "import":
                    proj = np.vstack([np.bincount(r, minlength=n) for r in table]) / n
                    sv = np.linalg.svd(proj, compute_uv=False)
                    if sv[-1] > 1e-3 * sv[0]:
                        imp = pe.import_bootstrap(boots, name, table)
                        s = imp.deltas[name] + imp.r_values[name]
                        imp_t = "(Some (%s, %s))" % (qlit(float(imp.value)), _ql(s))
                        ctx.count("boot:import attempted")
                    else:
                        ctx.skip("bootstrap import: table not of full column rank / ill conditioned")
        except Exception as e:
            ctx.fail("bootstrap:raises", "bootstrap export/import raised %r" % e, {"obs": obsutil.obs_struct(o), "mode": mode})
            continue
        data = o.deltas[name] + o.r_values[name]
        term = "(mkBC %s %s [%s] %s %s tol30)" % (
            qlit(float(o.value)), _ql(data), "; ".join("[" + "; ".join("%d" % int(k) for k in r) + "]%nat" for r in table), _ql(boots), imp_t)
        descr = {"kind": kind, "idl": ik, "n": n, "samples": int(len(table)), "mode": mode}
        bc.append({"term": term, "descr": descr, "key": "bootstrap:" + mode,
                   "what": "bootstrap export (%s) / import of a length-%d observable is not the mean over the resampled configurations / does not restore the observable" % (mode, n),
                   "replay": {"descr": descr, "obs": obsutil.obs_struct(o), "table": np.asarray(table).tolist(), "boots": [float(x) for x in boots]}})
        ctx.count("boot:mode:" + mode)
        ctx.case(("boot", mode, kind, n, len(table), tuple(float(x) for x in boots[:3])), sample={"what": "bootstrap", "mode": mode, "n": n, "samples": int(len(table))})

    bm, bs = common.judge_cases(ctx, "C13j", HDR, "jcase", [c["term"] for c in jc], ["jcase_model_ok", "jcase_spec_ok"], shard=25)
    common.settle(ctx, "jackknife", jc, bm, bs, "model Obs/Resample.v (jackknife) agrees with export_jackknife/import_jackknife on all generated cases")
    bm, bs = common.judge_cases(ctx, "C13b", HDR, "bcase", [c["term"] for c in bc], ["bcase_model_ok", "bcase_spec_ok"], shard=20)
    common.settle(ctx, "bootstrap", bc, bm, bs, "model Obs/Resample.v (bootstrap) agrees with export_bootstrap on all generated cases")

    # rejection clauses of import_bootstrap (shape, fewer samples than configurations)
    for bad, why in ((lambda: pe.import_bootstrap(np.zeros(4), "e", np.zeros((5, 3), dtype=int)), "wrong shape"),
                     (lambda: pe.import_bootstrap(np.zeros(4), "e", np.zeros((3, 6), dtype=int)), "fewer samples than configurations")):
        try:
            bad()
            ctx.fail("bootstrap:import-accepts-" + why.replace(" ", "-"), "import_bootstrap accepted a table with " + why, {"why": why})
        except ValueError:
            pass
        ctx.case(("boot-reject", why), nontrivial=False)


def replay(ctx, doc):
    run(ctx)
