"""Shared machinery of the /verif checks (see DESIGN.md §2).

A check = (1) translators regenerate Coq fragments from /repo's working tree,
(2) coqc re-checks the property theorems over them, (3) the implementation is run
on generated inputs and Coq itself (vm_compute) evaluates the model on the same
exact-rational inputs and decides agreement, (4) failures are classified
(known finding / violation with replay / violation no-failing-input-found),
(5) the evidence file is written.
"""
import hashlib
import json
import os
import random
import re
import shutil
import subprocess
import sys
import time
from concurrent.futures import ThreadPoolExecutor
from fractions import Fraction

VERIF = os.path.dirname(os.path.dirname(os.path.abspath(__file__)))
REPO = os.environ.get("VERIF_REPO", "/repo")
COQ = os.path.join(VERIF, "coq")
THEORIES = os.path.join(COQ, "theories")
PROPS = os.path.join(COQ, "props")
GEN = os.path.join(COQ, "gen")
EVIDENCE = os.path.join(VERIF, "evidence")
REPLAYS = os.path.join(VERIF, "replays")
KNOWN = os.path.join(VERIF, "known_findings.json")
NCPU = int(os.environ.get("VERIF_JOBS", "16"))


# ----------------------------------------------------------------------------- numbers
def frac(x):
    """Exact rational value of an int / float / Fraction / numpy scalar."""
    if isinstance(x, Fraction):
        return x
    if isinstance(x, bool):
        return Fraction(int(x))
    if isinstance(x, int):
        return Fraction(x)
    try:
        import numpy as np
        if isinstance(x, np.integer):
            return Fraction(int(x))
        if isinstance(x, np.floating):
            x = float(x)
    except ImportError:
        pass
    if isinstance(x, float):
        if x != x or x in (float("inf"), float("-inf")):
            raise ValueError("non-finite float cannot be a Q literal: %r" % x)
        n, d = x.as_integer_ratio()
        return Fraction(n, d)
    raise TypeError("frac: %r" % type(x))


def qlit(x):
    """Coq literal of type Q for an exactly representable number."""
    f = frac(x)
    n, d = f.numerator, f.denominator
    if n < 0:
        return "((%d) # %d)" % (n, d)
    return "(%d # %d)" % (n, d)


def zlit(n):
    return "(%d)%%Z" % int(n)


def qlist(xs):
    return "[" + "; ".join(qlit(x) for x in xs) + "]"


def zlist(xs):
    return "[" + "; ".join(zlit(x) for x in xs) + "]"


def coq_string(s):
    if any(ord(c) > 126 or ord(c) < 32 for c in s):
        raise ValueError("non-printable / non-ascii string for Coq: %r" % s)
    return '"' + s.replace('"', '""') + '"'


def coq_bool(b):
    return "true" if b else "false"


def coq_option(x, f):
    return "None" if x is None else "(Some %s)" % f(x)


# ----------------------------------------------------------------------------- coq runs
def coq_args(gendir=None):
    a = ["-q", "-R", THEORIES, "PV"]
    if gendir:
        a += ["-R", gendir, "PVG"]
    return a


def coqc(path, gendir=None, timeout=600):
    """Compile one .v file.  Returns (ok, stdout, stderr, seconds)."""
    t0 = time.time()
    cmd = ["timeout", str(int(timeout)), "coqc"] + coq_args(gendir) + [path]
    try:
        p = subprocess.run(cmd, capture_output=True, text=True, cwd=gendir or COQ)
        return p.returncode == 0, p.stdout, p.stderr, time.time() - t0
    except Exception as e:  # pragma: no cover
        return False, "", "coqc could not be run: %r" % e, time.time() - t0


def coqc_many(paths, gendir, timeout=600):
    with ThreadPoolExecutor(max_workers=NCPU) as ex:
        return list(ex.map(lambda p: coqc(p, gendir, timeout), paths))


def library_built():
    """True when the hand-written library has been compiled by setup_cmd."""
    for root, _, files in os.walk(THEORIES):
        for f in files:
            if f.endswith(".v"):
                vo = os.path.join(root, f[:-2] + ".vo")
                if not os.path.exists(vo) or os.path.getmtime(vo) < os.path.getmtime(os.path.join(root, f)):
                    return False
    return True


def ensure_library():
    if library_built():
        return
    p = subprocess.run(["bash", os.path.join(VERIF, "setup.sh")], capture_output=True, text=True)
    if p.returncode != 0 or not library_built():
        sys.stdout.write(p.stdout[-3000:] + p.stderr[-3000:])
        print("INFRASTRUCTURE: hand-written Coq library does not build (independent of /repo)")
        sys.exit(2)


_LIST_RE = re.compile(r"=\s*\[(.*?)\]\s*:\s*list", re.S)


def parse_z_list(out, which=0):
    """Parse the which-th `= [..] : list _` answer printed by Eval vm_compute."""
    ms = _LIST_RE.findall(out)
    if len(ms) <= which:
        return None
    body = ms[which]
    return [int(t) for t in re.findall(r"-?\d+", body.replace("%Z", "").replace("%nat", "").replace("%N", ""))]


def parse_assumptions(out):
    """Collect the axioms `Print Assumptions` reported (names only), and whether closed."""
    axioms = set()
    closed = 0
    lines = out.splitlines()
    i = 0
    while i < len(lines):
        ln = lines[i]
        if ln.startswith("Closed under the global context"):
            closed += 1
        if ln.startswith("Axioms:"):
            i += 1
            while i < len(lines) and lines[i].strip() and not lines[i].startswith(("Closed", "Axioms:", "     =", "=")):
                m = re.match(r"^([A-Za-z_][\w.']*)\s*(:|$)", lines[i])
                if m:
                    axioms.add(m.group(1))
                i += 1
            continue
        i += 1
    return sorted(axioms), closed


def count_theorems(vfile_text):
    return len(re.findall(r"^\s*(Theorem|Lemma|Example|Corollary)\s+([\w']+)", vfile_text, re.M))


def theorem_names(vfile_text):
    return [m[1] for m in re.findall(r"^\s*(Theorem|Lemma|Example|Corollary)\s+([\w']+)", vfile_text, re.M)]


FORBIDDEN = re.compile(r"\b(Admitted|admit|Axiom|Parameter|Conjecture|Unset\s+Guard|bypass_check|Admit\s+Obligations|type-in-type)\b")


def forbidden_in(text):
    # strip comments (non-nested is enough for our own files)
    t = re.sub(r"\(\*.*?\*\)", "", text, flags=re.S)
    return sorted(set(FORBIDDEN.findall(t)))


# ----------------------------------------------------------------------------- context
class Ctx:
    def __init__(self, prop, tier, seed, level="proof"):
        self.prop = prop
        self.tier = tier
        self.seed = seed
        self.level = level
        self.t0 = time.time()
        self.gendir = os.path.join(GEN, prop)
        shutil.rmtree(self.gendir, ignore_errors=True)
        os.makedirs(self.gendir, exist_ok=True)
        os.makedirs(REPLAYS, exist_ok=True)
        os.makedirs(EVIDENCE, exist_ok=True)
        self.rng = random.Random("%s/%d" % (prop, seed))
        self.obligations = []      # (name, ok, detail)
        self.broken = []           # names of obligations / ties that no longer check
        self.failures = []         # dicts: key, what, replay
        self.evaluations = 0
        self.nontrivial = set()
        self.samples = []
        self.dist = {}
        self.skipped = {}
        self.axioms = set()
        self.closed = 0
        self.notes = []
        self.trusted = []
        self.assumptions = []
        self.rule = ""
        self.checker_cmds = []
        self.extra = {}

    # -- bookkeeping
    def count(self, key, n=1):
        self.dist[key] = self.dist.get(key, 0) + n

    def skip(self, key, n=1):
        self.skipped[key] = self.skipped.get(key, 0) + n

    def case(self, canon, nontrivial=True, sample=None):
        self.evaluations += 1
        if nontrivial:
            self.nontrivial.add(hashlib.sha1(repr(canon).encode()).hexdigest())
        if sample is not None and len(self.samples) < 4:
            self.samples.append(sample)

    def obligation(self, name, ok, detail=""):
        self.obligations.append((name, bool(ok), detail))
        if not ok:
            self.broken.append(name)

    def fail(self, key, what, replay):
        """A concrete input on which the REAL code violates the property."""
        self.failures.append({"key": key, "what": what, "replay": replay})

    # -- coq helpers
    def write(self, name, text):
        p = os.path.join(self.gendir, name)
        with open(p, "w") as f:
            f.write(text)
        return p

    def compile_obligation(self, name, path, timeout=600):
        """coqc a generated / property file; every Theorem in it is an obligation."""
        text = open(path).read()
        bad = forbidden_in(text)
        ok, out, err, secs = coqc(path, self.gendir, timeout)
        names = theorem_names(text)
        self.checker_cmds.append("coqc -R coq/theories PV -R coq/gen/%s PVG %s" % (self.prop, os.path.relpath(path, VERIF)))
        ax, closed = parse_assumptions(out)
        self.axioms.update(ax)
        self.closed += closed
        if bad:
            ok = False
            err = "forbidden vernacular in %s: %s\n" % (path, bad) + err
        if ok:
            for n in names:
                self.obligation("%s:%s" % (name, n), True)
            if not names:
                self.obligation(name, True)
        else:
            # which theorem failed?  coqc stops at the first error: report the file and the error text.
            m = re.search(r'line (\d+), characters', err)
            where = ""
            if m:
                ln = int(m.group(1))
                before = text.splitlines()[:ln]
                for l in reversed(before):
                    mm = re.match(r"^\s*(Theorem|Lemma|Example|Corollary|Definition|Fixpoint|Goal)\s+([\w']+)", l)
                    if mm:
                        where = mm.group(2)
                        break
            self.obligation("%s:%s" % (name, where or "?"), False, (err or out)[-1500:])
        return ok, out, err

    def copy_props(self, fname=None):
        """Copy coq/props/<prop>.v into the gen dir (it may Require regenerated files) and compile."""
        fname = fname or (self.prop + ".v")
        src = os.path.join(PROPS, fname)
        dst = os.path.join(self.gendir, "Props_" + fname)
        shutil.copy(src, dst)
        return self.compile_obligation("props/" + fname, dst)

    def run_case_files(self, files, timeout=900):
        """Compile case files in parallel; each prints one `= [bad indices] : list Z`.
        Returns list of (file, bad_indices or None, err)."""
        res = coqc_many(files, self.gendir, timeout)
        out = []
        for f, (ok, so, se, secs) in zip(files, res):
            bad = parse_z_list(so) if ok else None
            out.append((f, bad, (se or so)[-2000:] if not ok or bad is None else ""))
        return out


# ----------------------------------------------------------------------------- known findings
def load_known():
    if not os.path.exists(KNOWN):
        return {"findings": [], "fixed": []}
    with open(KNOWN) as f:
        return json.load(f)


def _prune_gendir(ctx):
    """Compiled case files are bulky (gigabytes in the thorough tier) and never needed again: keep the .v sources for replay only."""
    try:
        for fn in os.listdir(ctx.gendir):
            if fn.endswith((".vo", ".vok", ".vos", ".glob", ".aux")) and fn.lstrip(".").startswith("cases_"):
                os.remove(os.path.join(ctx.gendir, fn))
    except OSError:
        pass


def finish(ctx):
    """Classify, print the VIOLATION / KNOWN-FINDING lines, write evidence, return exit status."""
    _prune_gendir(ctx)
    known = load_known()
    known_keys = {(k["property"], k["key"]): k for k in known.get("findings", [])}
    violations = 0
    seen_known = set()
    new_fail_keys = set()
    for f in ctx.failures:
        kk = (ctx.prop, f["key"])
        if kk in known_keys:
            if kk not in seen_known:
                seen_known.add(kk)
                print("KNOWN-FINDING: property=%s %s" % (ctx.prop, known_keys[kk]["what"]))
            continue
        if f["key"] in new_fail_keys:
            continue
        new_fail_keys.add(f["key"])
        h = hashlib.sha1(json.dumps(f["replay"], sort_keys=True, default=str).encode()).hexdigest()[:12]
        path = os.path.join(REPLAYS, "%s_%s.json" % (ctx.prop, h))
        doc = {"property": ctx.prop, "tier": ctx.tier, "seed": ctx.seed, "kind": "failing-input",
               "key": f["key"], "what": f["what"], "broken": ctx.broken, "replay": f["replay"],
               "replay_cmd": "./check %s --replay %s" % (ctx.prop, path)}
        with open(path, "w") as fh:
            json.dump(doc, fh, indent=1, default=str)
        print("VIOLATION property=%s replay=%s" % (ctx.prop, path))
        print("  what: %s" % f["what"])
        violations += 1
    if ctx.broken and violations == 0:
        # a proof obligation / tie no longer checks and no (unlisted) failing input was found
        h = hashlib.sha1(json.dumps(ctx.broken).encode()).hexdigest()[:12]
        path = os.path.join(REPLAYS, "%s_broken_%s.json" % (ctx.prop, h))
        details = {n: d for (n, ok, d) in ctx.obligations if not ok}
        with open(path, "w") as fh:
            json.dump({"property": ctx.prop, "tier": ctx.tier, "seed": ctx.seed,
                       "kind": "no-failing-input-found", "broken": ctx.broken, "details": details,
                       "replay_cmd": "./check %s --tier %s" % (ctx.prop, ctx.tier)}, fh, indent=1)
        print("VIOLATION property=%s replay=%s no-failing-input-found" % (ctx.prop, path))
        for n in ctx.broken:
            print("  no longer checks: %s" % n)
        violations += 1
    write_evidence(ctx, violations)
    return 1 if violations else 0


def write_evidence(ctx, violations):
    nob = len(ctx.obligations)
    ndis = sum(1 for (_, ok, _) in ctx.obligations if ok)
    cov = {
        "obligations": nob,
        "discharged": ndis,
        "checker_cmd": "; ".join(ctx.checker_cmds[:6]) or "coqc",
        "trusted_base": [
            "Coq 8.16.1 kernel + vm_compute (no native_compute)",
            "axioms reported by Print Assumptions in this run: " + (", ".join(sorted(ctx.axioms)) or "none (all property theorems closed under the global context)"),
            "closed-under-global-context reports in this run: %d" % ctx.closed,
        ] + ctx.trusted,
        "evaluations": ctx.evaluations,
        "distinct_nontrivial": len(ctx.nontrivial),
        "rule": ctx.rule,
        "samples": ctx.samples or ["(no correspondence cases in this run)"],
        "input_distribution": ctx.dist,
        "skipped": ctx.skipped,
        "broken_obligations": ctx.broken,
        "failures_found": [{"key": f["key"], "what": f["what"]} for f in ctx.failures[:20]],
        "notes": ctx.notes,
    }
    cov.update(ctx.extra)
    ev = {
        "property_id": ctx.prop,
        "tier": ctx.tier,
        "seed": ctx.seed,
        "level": ctx.level,
        "coverage": cov,
        "assumptions": ctx.assumptions,
        "wall_s": round(time.time() - ctx.t0, 2),
        "violations": violations,
    }
    with open(os.path.join(EVIDENCE, ctx.prop + ".json"), "w") as f:
        json.dump(ev, f, indent=1, default=str)


# ----------------------------------------------------------------------------- implementation import
def import_pyerrors():
    """Import pyerrors from /repo's working tree (never another copy)."""
    if REPO not in sys.path:
        sys.path.insert(0, REPO)
    import warnings
    warnings.filterwarnings("ignore")
    import pyerrors as pe
    here = os.path.realpath(pe.__file__)
    if not here.startswith(os.path.realpath(REPO) + os.sep):
        print("INFRASTRUCTURE: imported pyerrors from %s, not from %s" % (here, REPO))
        sys.exit(2)
    return pe


# ----------------------------------------------------------------------------- generic case judging
def judge_cases(ctx, tag, header, typ, terms, verdicts, shard=40, timeout=1200):
    """Write the case terms (Coq terms of type `typ`) into shards, let Coq evaluate every verdict function
    (names of `typ -> bool` functions) on them with vm_compute and return, per verdict, the sorted list of
    indices of the cases it rejects.  A shard that does not evaluate is a broken obligation."""
    files = []
    for s in range(0, len(terms), shard):
        chunk = terms[s:s + shard]
        txt = header + "\nDefinition cases : list (%s) := [\n%s\n].\n" % (typ, ";\n".join(chunk))
        for v in verdicts:
            txt += "Eval vm_compute in bad_cases %s cases.\n" % v
        files.append(ctx.write("cases_%s_%03d.v" % (tag, s // shard), txt))
    bad = [[] for _ in verdicts]
    outs = coqc_many(files, ctx.gendir, timeout)
    ctx.extra.setdefault("slowest_shards", {})[tag] = sorted(((round(o[3], 1), k) for k, o in enumerate(outs)), reverse=True)[:3]
    for k, (ok, so, se, secs) in enumerate(outs):
        if not ok:
            ctx.obligation("X:cases_%s_%03d.v evaluates" % (tag, k), False, (se or so)[-800:])
            continue
        for j in range(len(verdicts)):
            lst = parse_z_list(so, j)
            if lst is None:
                ctx.obligation("X:cases_%s_%03d.v verdict %d printed" % (tag, k, j), False, so[-400:])
                continue
            bad[j] += [k * shard + i for i in lst]
    return bad


def settle(ctx, tag, cases, bad_model, bad_spec, what_model):
    """Standard classification: spec-rejected cases are failing inputs of the real code; model-only
    disagreements break the tie (model no longer describes the code)."""
    for i in bad_spec:
        c = cases[i]
        ctx.fail(c["key"], c["what"], c["replay"])
    only_model = [i for i in bad_model if i not in set(bad_spec)]
    ctx.obligation("X:%s" % what_model, not only_model,
                   "cases on which model and implementation disagree although the spec verdict passes: %s; first: %s"
                   % (only_model[:10], json.dumps(cases[only_model[0]].get("descr", ""), default=str)[:600] if only_model else ""))
    ctx.extra.setdefault("disagreements", {})[tag] = {"model": len(bad_model), "spec": len(bad_spec)}


# ----------------------------------------------------------------------------- tie by translation (t_pycore)
TIE_FILES = {   # tie file -> functions of pyerrors/obs.py it needs regenerated
    "Tie_expand_deltas.v": ["_expand_deltas"],
    "Tie_merge.v": ["_expand_deltas_for_merge", "_merge_idx"],
    "Tie_inter.v": ["_intersection_idx"],
    "Tie_reduce.v": ["_reduce_deltas"],
    "Tie_reweight.v": ["_reduce_deltas", "reweight_samples"],      # imports Tie_reduce: list that file first
    "Tie_correlate.v": ["correlate_replica"],
    "Tie_corrpair.v": ["corr_reweight_loop", "corr_correlate_loop"],
    "Tie_gap.v": ["_determine_gap", "gamma_method_w_max"],
    "Tie_kwarg.v": ["_parse_kwarg"],
    "Tie_scalef.v": ["_compute_scalefactor_missing_rep"],
    "Tie_jack.v": ["export_jackknife", "import_jackknife_samples", "export_bootstrap_core"],
    "Tie_drho.v": ["compute_drho_radicand"],
    "Tie_covdot.v": ["_reduce_deltas", "covariance_calc_gamma"],      # imports Tie_reduce: list that file first
    "Tie_sortvec.v": ["sort_vectors_branch"],
    "Tie_init.v": ["obs_init_idl_from_list", "obs_init_validation"],
    "Tie_sortcorr.v": ["sort_corr_mapping"],
    "Tie_window.v": ["gamma_method_window_search", "gamma_method_tauexp_search", "gamma_method_window_tauint", "gamma_method_window_dvalue_sq"],
    "Tie_tauint.v": ["gamma_method_normalise", "gamma_method_rho", "gamma_method_n_tauint", "gamma_method_dtauint_radicand", "gamma_method_dtauint_factor"],
    "Tie_corr.v": ["corr_thin", "corr_reverse", "corr_roll", "corr_symmetric", "corr_anti_symmetric", "corr_add_corr", "corr_mul_corr", "corr_add_scalar", "corr_mul_scalar"],
    "Tie_projected.v": ["corr_projected_single", "corr_projected_lists"],
    "Tie_corrfit.v": ["corr_fit_xs", "corr_fit_ys"],
    "Tie_plateau.v": ["corr_plateau_avg"],
    "Tie_plottable.v": ["corr_plottable_x", "corr_plottable_y", "corr_plottable_yerr"],
    "Tie_meffroot.v": ["m_eff_root_loop"],
    "Tie_gamma.v": ["_expand_deltas", "_calc_gamma"],      # imports Tie_expand_deltas: list that file first
}


def tie_pycore(ctx, tie_files):
    """Tie by translation + directed search of the helpers' own argument space (harness/helpers_search.py)."""
    funcs = []
    for tf in tie_files:
        funcs += [f for f in TIE_FILES[tf] if f not in funcs]
    try:
        return _tie_pycore(ctx, tie_files)
    finally:
        try:
            import helpers_search
            helpers_search.search(ctx, funcs)
        except Exception as e:      # the search itself must never mask the tie's verdict
            ctx.notes.append("helper search could not run: %r" % (e,))
        try:
            from harness import prims
            prims.check(ctx, 250)      # the meaning Py/Prim.v gives to Python operations, compared with this interpreter
        except Exception as e:
            ctx.notes.append("primitive semantics test could not run: %r" % (e,))


def _tie_pycore(ctx, tie_files):
    """Regenerate the named helper functions of pyerrors/obs.py as Gallina definitions (translate/t_pycore.py), compile them and
    re-prove the tie theorems `regenerated definition = hand-written model` (coq/props/Tie_*.v).  Every theorem is an obligation of
    the calling check; a construct outside the translator's subset or a proof that no longer goes through is a broken tie."""
    from translate import t_pycore
    funcs = []
    for tf in tie_files:
        for f in TIE_FILES[tf]:
            if f not in funcs:
                funcs.append(f)
    ctx.trusted.append("translate/t_pycore.py (Python subset -> Gallina, fail-closed) and the meaning it gives Python operations (coq/theories/Py/Prim.v); "
                       "regenerated this run from pyerrors/obs.py / correlators.py: " + ", ".join(funcs))
    ok_all = True
    done = []
    # one generated file per function, so that an edit to one helper breaks only the ties that mention it
    with open(os.path.join(REPO, "pyerrors", "obs.py")) as fh:
        src = fh.read()
    try:
        with open(os.path.join(REPO, "pyerrors", "correlators.py")) as fh:
            corr_src = fh.read()
        text, done = t_pycore.translate_source(src, only=funcs, sources={"correlators.py": corr_src})
    except t_pycore.TranslateError as e:
        ctx.obligation("T-pycore:translate obs.py", False, str(e))
        return False
    except SyntaxError as e:
        ctx.obligation("T-pycore:parse obs.py", False, str(e))
        return False
    path = ctx.write("PyGen.v", text)
    ok, _, _ = ctx.compile_obligation("gen/PyGen.v", path)
    if not ok:
        return False
    for tf in tie_files:
        dst = os.path.join(ctx.gendir, tf)
        shutil.copy(os.path.join(PROPS, tf), dst)
        ok, _, _ = ctx.compile_obligation("props/" + tf, dst)
        ok_all = ok_all and ok
    ctx.notes.append("tie by translation: %s regenerated from the source and proved equal to the hand-written model / to the property's closed form (%s)" % (", ".join(funcs), ", ".join(tie_files)))
    return ok_all
