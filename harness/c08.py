"""C08 -- non-linear and total least-squares fits obey the implicit-function rule (DESIGN §3 C08)."""
import os
import warnings

from harness import common, obsutil
from harness import exprs as X
from harness.common import qlit
from harness.exprs import E

LEVEL = "proof"

HDR = """From Coq Require Import ZArith QArith List Bool String.
From PV Require Import Base.QAux Base.Expr Obs.Model Obs.Derived Fit.Implicit.
Import ListNotations.
Open Scope Q_scope.
Open Scope string_scope.
"""

CORPUS = [("exp2d", "tls"), ("exp2c", "tls"), ("exp2d", "lsq"), ("twoexp", "lsq"), ("pade", "tls"), ("cosh", "tls"), ("exp2c", "lsq+corr+priors"), ("rational", "lsq+corr+priors"),
          ("exp2", "lsq+corr+alt"), ("exp2c", "lsq+corr+alt")]
VERDICTS = ["fit_values_ok", "fit_stationary", "fit_chisq_ok", "fit_implicit"]


def families():
    """name -> (npar, ncomp, builder(P, Xc) -> E, true parameters, abscissa generator)"""
    fam = {}
    fam["exp1"] = (1, 1, lambda P, x: X.exp(-P[0] * x[0]), [0.35], lambda rng, n: [[0.5 * (k + 1)] for k in range(n)])
    fam["exp2"] = (2, 1, lambda P, x: P[0] * X.exp(-P[1] * x[0]), [2.0, 0.3], lambda rng, n: [[0.5 * (k + 1)] for k in range(n)])
    fam["exp2c"] = (3, 1, lambda P, x: P[0] * X.exp(-P[1] * x[0]) + P[2], [2.0, 0.5, 0.7], lambda rng, n: [[0.75 * k] for k in range(n)])
    fam["twoexp"] = (4, 1, lambda P, x: P[0] * X.exp(-P[1] * x[0]) + P[2] * X.exp(-P[3] * x[0]), [1.0, 0.2, 0.8, 1.5], lambda rng, n: [[0.5 * k] for k in range(n)])
    fam["cosh"] = (2, 1, lambda P, x: P[0] * X.cosh(P[1] * (x[0] - 4)), [1.5, 0.4], lambda rng, n: [[float(k)] for k in range(n)])
    fam["rational"] = (2, 1, lambda P, x: P[0] / (1 + P[1] * x[0]), [2.0, 0.6], lambda rng, n: [[0.5 * k] for k in range(n)])
    fam["pade"] = (3, 1, lambda P, x: (P[0] + P[1] * x[0]) / (1 + P[2] * x[0]), [1.0, 0.8, 0.3], lambda rng, n: [[0.5 * k] for k in range(n)])
    fam["sqrtlog"] = (2, 1, lambda P, x: P[0] * X.sqrt(1 + P[1] * x[0]) + X.log(1 + x[0] * P[1] * P[1]), [1.2, 0.7], lambda rng, n: [[0.5 * (k + 1)] for k in range(n)])
    fam["trig"] = (3, 1, lambda P, x: P[0] * X.sin(P[1] * x[0]) + P[2] * x[0] ** 2, [1.3, 0.45, 0.1], lambda rng, n: [[0.4 * (k + 1)] for k in range(n)])
    fam["exp2d"] = (3, 2, lambda P, x: P[0] * X.exp(-P[1] * x[0]) + P[2] * x[1] * x[1], [1.8, 0.4, 0.25],
                    lambda rng, n: [[0.5 * (k + 1), float((3 * k) % 4) * 0.5] for k in range(n)])
    return fam


def mat_term(m):
    return "[" + "; ".join("[" + "; ".join(qlit(float(x)) for x in row) + "]" for row in m) + "]"


def run(ctx):
    import numpy as np
    pe = common.import_pyerrors()
    import pyerrors.fits as pf
    pf.print = lambda *a, **k: None
    rng = ctx.rng
    quick = ctx.tier == "quick"
    fam = families()
    ctx.rule = ("non-linear families " + ", ".join(sorted(fam)) + " (exponentials, cosh, rational, sqrt/log, trigonometric, two-dimensional abscissae; 1..4 parameters) around well-conditioned true parameters; "
                "least_squares uncorrelated / correlated, with and without priors, autograd and num_grad; total_least_squares with observable abscissae (1-d and 2-d); data on shared or separate ensembles "
                "with partly overlapping configuration lists and covariance inputs. Judged in Coq with verified interval arithmetic on the symbolic derivatives of the documented chi-square: stationarity, chi-square value, and the "
                "differentiated stationarity condition H dp + B d(data) = 0 on every configuration and covariance input; plus re-fit experiments")
    ctx.trusted += ["scipy minimisers / ODR, autograd and numdifftools are oracles judged per case", "Interval library (verified interval arithmetic, 80 bits) evaluated with vm_compute",
                    "hand-written chi-square builders Fit/Implicit.v (lsq_chisq, odr_chisq transcribe the documented chi-square)"]
    ctx.assumptions += ["tolerances: residual of the differentiated system <= 2^-18 of the sum of its absolute terms; stationarity g_i^2 <= tol^2 H_ii (1 + chi^2 + H_ii p_i^2) with tol = 2^-18 (2^-10 for ODR)"]
    ctx.copy_props()

    import itertools
    uniq = itertools.count()
    cases = []
    ncase = 30 if quick else 400
    for i in range(ncase):
        name = rng.choice(sorted(fam))
        kind = rng.choice(["lsq", "lsq", "lsq", "tls"])
        forced = None
        alt_method = rng.choice(["Nelder-Mead", "Powell"]) if rng.random() < 0.1 else None
        if i < len(CORPUS):                   # stratification: combinations every run must contain
            name, kind = CORPUS[i]
            if kind == "lsq+corr+priors":
                kind, forced = "lsq", ("estimated", "dict")
            elif kind == "lsq+corr+alt":          # a correlated fit through one of scipy's general minimisers (the non-default branch)
                kind, forced, alt_method = "lsq", ("estimated", "none"), rng.choice(["Nelder-Mead", "Powell"])
        npar, ncomp, build, ptrue, xgen = fam[name]
        npts = rng.randint(npar + 3, npar + 5)
        xs = xgen(rng, npts)
        expr = build([E.var(j) for j in range(npar)], [E.var(npar + c) for c in range(ncomp)])
        func = X.fit_function(expr, npar, ncomp)
        base = obsutil.gen_layout(rng, nmin=24, nmax=40, max_ens=1)
        shared = rng.random() < 0.6
        cv = pe.cov_Obs(1.0, 0.0004, "cvN") if rng.random() < 0.2 else None

        def noise(scale):
            lay = base if shared else obsutil.gen_layout(rng, nmin=24, nmax=40, max_ens=1, ens_names=["N%dx%d" % (i, next(uniq))])
            if shared and rng.random() < 0.3:
                lay = obsutil.derive_layout(rng, base, rng.choice(["subset_prefix", "superset", "subset_stride"]))
            o = obsutil.make_obs(pe, rng, lay, "int")
            o = (o - o.value) * (scale / 3.0) + scale * 0.15 * rng.uniform(-1, 1)      # non-zero mean: the data do not sit on the curve
            return o
        try:
            ytrue = [float(func(np.array(ptrue), np.array(x) if ncomp > 1 else x[0])) for x in xs]
            y_all = [yt * (1 + noise(0.02)) * (cv if cv is not None else 1.0) + 0.0 for yt in ytrue]
            for o in y_all:
                o.gamma_method(S=rng.choice([0, 1, 2]))
            kw = {"silent": True}
            num_grad = rng.random() < 0.25
            if num_grad:
                kw["num_grad"] = True
            with warnings.catch_warnings():
                warnings.simplefilter("ignore")
                if kind == "lsq":
                    corr_mode = rng.choice(["none", "none", "estimated"])
                    prior_mode = rng.choice(["none", "none", "dict"])
                    if forced:
                        corr_mode, prior_mode = forced
                    kw["initial_guess"] = [p * rng.uniform(0.9, 1.1) for p in ptrue]
                    if alt_method and not num_grad:
                        kw["method"] = alt_method
                        ctx.count("method:" + alt_method)
                    mask, pri = [], []
                    if prior_mode == "dict":
                        mask = sorted(rng.sample(range(npar), rng.randint(1, npar)))
                        entries = []
                        for j in mask:
                            if rng.random() < 0.5:
                                entries.append("%.3f(%d)" % (ptrue[j] * rng.uniform(0.9, 1.1), rng.randint(20, 90)))
                            else:
                                po = pe.cov_Obs(ptrue[j] * rng.uniform(0.9, 1.1), (0.1 * abs(ptrue[j]) + 0.02) ** 2, "pri%d_%d" % (i, j))
                                po.gamma_method()
                                entries.append(po)
                        kw["priors"] = dict(zip(mask, entries))
                    if corr_mode == "estimated":
                        kw["correlated_fit"] = True
                        corr = pe.covariance(y_all, correlation=True)
                        dy = np.array([o.dvalue for o in y_all])
                        W = pe.obs.invert_corr_cov_cholesky(corr, np.diag(1 / dy))
                    else:
                        W = np.diag(1 / np.array([o.dvalue for o in y_all]))
                    xarr = np.array([x[0] for x in xs]) if ncomp == 1 else np.array(xs).T
                    res = pf.least_squares(xarr, y_all, func, **kw)
                    if mask:
                        pri = [res.priors[j] for j in mask]
                    dobs = list(y_all) + pri
                    F = "(lsq_chisq %s %d%%nat %s %s [%s] [%s])" % (expr.coq, npar, mat_term(xs), mat_term(W), "; ".join("%d%%nat" % j for j in mask), "; ".join(qlit(float(p.dvalue)) for p in pri))
                    uvals = [float(p.value) for p in res.fit_parameters]
                    dvals = [float(o.value) for o in dobs]
                    nu = npar
                    chisq = float(res.chisquare)
                    tol = 2.0 ** -9 if "method" in kw else 2.0 ** -18      # simplex / direction-set minimisers stop far from machine precision
                    opts = {"kind": kind, "correlated": corr_mode, "priors": prior_mode, "num_grad": num_grad}
                else:
                    x_obs = [[xc + noise(0.02 * max(abs(xc), 0.5)) for xc in x] for x in xs]        # [point][component]
                    for row in x_obs:
                        for o in row:
                            o.gamma_method()
                    kw["initial_guess"] = [p * rng.uniform(0.95, 1.05) for p in ptrue]
                    xcall = [r[0] for r in x_obs] if ncomp == 1 else tuple([r[c] for r in x_obs] for c in range(ncomp))
                    res = pf.total_least_squares(xcall, y_all, func, **kw)
                    xflat = [x_obs[l][c] for c in range(ncomp) for l in range(npts)]
                    dobs = xflat + list(y_all)
                    F = "(odr_chisq %s %d%%nat %d%%nat %d%%nat [%s] %s)" % (expr.coq, npar, ncomp, npts, "; ".join(qlit(float(o.dvalue)) for o in y_all),
                                                                          mat_term([[x_obs[l][c].dvalue for l in range(npts)] for c in range(ncomp)]))
                    uvals = [float(p.value) for p in res.fit_parameters] + [float(v) for v in np.asarray(res.xplus).ravel()]
                    dvals = [float(o.value) for o in dobs]
                    nu = npar + ncomp * npts
                    chisq = float(res.odr_chisquare)
                    tol = 2.0 ** -10
                    opts = {"kind": kind, "num_grad": num_grad}
        except Exception as e:
            ctx.skip("fit not performed: %s: %s" % (type(e).__name__, str(e)[:60]))
            continue
        term = "(mkFitC %s %d%%nat %d%%nat [%s] [%s] [%s] [%s] (1 # 2 ^ 18) %s %s)" % (
            F, nu, npar, "; ".join(qlit(v) for v in uvals), "; ".join(qlit(v) for v in dvals),
            "; ".join(obsutil.obs_term(p) for p in res.fit_parameters), "; ".join(obsutil.obs_term(o) for o in dobs), qlit(tol), qlit(chisq))
        if os.environ.get("C08_DUMP"):
            import pickle
            with open(os.path.join(os.environ["C08_DUMP"], "case_%03d.pkl" % len(cases)), "wb") as fh:
                pickle.dump({"family": name, "kind": kind, "xs": xs, "y": y_all, "kw": {k: v for k, v in kw.items()}, "params": res.fit_parameters, "dobs": dobs}, fh)
        descr = dict(opts, family=name, npar=npar, npoints=npts, shared_ensemble=shared, fit_values=uvals[:npar], chisquare=chisq)
        cases.append({"term": term, "descr": descr, "key": "implicit:%s:%s" % (name, ":".join("%s" % v for v in opts.values())), "replay": descr})
        for k, v in opts.items():
            ctx.count("%s:%s" % (k, v))
        ctx.count("family:" + name)
        ctx.case((name, tuple(uvals), chisq), nontrivial=True, sample=descr if len(ctx.samples) < 3 else None)
    bads = common.judge_cases(ctx, "C08", HDR, "fitcase", [c["term"] for c in cases], VERDICTS, shard=2)
    failing = {}
    for v, lst in zip(VERDICTS, bads):
        for k in lst:
            failing.setdefault(k, []).append(v)
    for k, vs in sorted(failing.items()):
        c = cases[k]
        d = c["descr"]
        msgs = {"fit_values_ok": "the parameters' central values are not the minimiser's result", "fit_stationary": "the returned parameters are not a stationary point of the documented chi-square",
                "fit_chisq_ok": "the reported chi-square is not the documented chi-square at the solution", "fit_implicit": "the parameters' fluctuations / covariance gradients violate H dp + B d(data) = 0 (implicit-function rule)"}
        ctx.fail(c["key"], "%s fit (%s): %s" % (d["kind"], d["family"], "; ".join(msgs[v] for v in vs)), dict(d, failed_verdicts=vs))

    # ------------------------------------------------------------------ experiments on the real code
    # (a) a shifted data point followed by a re-fit moves the parameters by the predicted first-order amount
    npar, ncomp, build, ptrue, xgen = fam["exp2c"]
    expr = build([E.var(j) for j in range(npar)], [E.var(npar)])
    func = X.fit_function(expr, npar, 1)
    xs = [0.75 * k for k in range(7)]
    ys = []
    for l, xv in enumerate(xs):                      # independent ensembles: dp/dy_l is read off the fluctuations on ensemble l
        o = pe.Obs([float(func(np.array(ptrue), xv)) * (1 + 0.02 * np.sin(np.arange(1, 41) * (l + 1.3)))], ["X%d" % l])
        o.gamma_method()
        ys.append(o)
    with warnings.catch_warnings():
        warnings.simplefilter("ignore")
        r0 = pf.least_squares(np.array(xs), ys, func, silent=True, initial_guess=ptrue)
        for l in (0, 3, 6):
            eps = 1e-2 * ys[l].dvalue
            pm = []
            for sgn in (1, -1):
                ys2 = list(ys)
                sh = ys[l] + sgn * eps          # the shift does not change dvalue: the weights stay frozen
                sh.gamma_method()
                ys2[l] = sh
                pm.append(pf.least_squares(np.array(xs), ys2, func, silent=True, initial_guess=[p.value for p in r0.fit_parameters]))
            for j in range(npar):
                d = r0.fit_parameters[j].deltas["X%d" % l]
                dyl = ys[l].deltas["X%d" % l]
                pred = float(np.dot(d, dyl) / np.dot(dyl, dyl))     # dp_j / dy_l read off the fluctuations on ensemble l
                got = (pm[0].fit_parameters[j].value - pm[1].fit_parameters[j].value) / (2 * eps)
                scale = max(abs(r0.fit_parameters[k].deltas["X%d" % l] @ dyl / (dyl @ dyl)) for k in range(npar))
                if not abs(got - pred) <= 1e-3 * max(abs(pred), 1e-2 * scale):
                    ctx.fail("refit:shift", "re-fit after shifting data point %d moves parameter %d by %.6g per unit shift, the propagated sensitivity is %.6g" % (l, j, got, pred), {"point": l, "parameter": j, "refit": got, "predicted": pred})
                ctx.case(("refit", l, j, round(pred, 9)), nontrivial=True)
        # (b) total least squares with negligible x errors coincides with the ordinary fit
        xo = []
        for l, xv in enumerate(xs):
            o = pe.Obs([xv + 1e-9 * np.cos(np.arange(1, 41) * (l + 0.7))], ["X%d" % l])
            o.gamma_method()
            xo.append(o)
        rt = pf.total_least_squares(xo, ys, func, silent=True, initial_guess=ptrue)
        for j in range(npar):
            a, b = rt.fit_parameters[j], r0.fit_parameters[j]
            a.gamma_method(); b.gamma_method()
            if abs(a.value - b.value) > 1e-6 * abs(b.value) or abs(a.dvalue - b.dvalue) > 1e-5 * b.dvalue:
                ctx.fail("tls:negligible-x-errors", "total_least_squares with negligible x errors differs from least_squares in parameter %d: %.12g +- %.6g vs %.12g +- %.6g" % (j, a.value, a.dvalue, b.value, b.dvalue), {"parameter": j})
            ctx.case(("tls=ols", j), nontrivial=True)


def replay(ctx, doc):
    run(ctx)
