"""C02 -- Gamma-method error estimate equals Wolff's estimator on every chain layout (DESIGN §3 C02)."""
import math

from harness import common, obsutil
from harness.common import qlit, zlit

LEVEL = "proof"

HDR = """From Coq Require Import ZArith QArith List Bool String.
From PV Require Import Base.QAux Obs.Model Obs.Gamma Obs.GammaCases.
Import ListNotations.
Open Scope Q_scope.
"""


def ql(xs):
    return "[" + "; ".join(qlit(float(x)) for x in xs) + "]"


def grep_term(o, name, exact=None):
    if exact is not None:
        return "(mkGrep %s [%s])" % (obsutil.idl_term(o.idl[name]), "; ".join(qlit(x) for x in exact))
    return "(mkGrep %s %s)" % (obsutil.idl_term(o.idl[name]), ql(o.deltas[name]))


def exact_deltas(samples, factor):
    """the fluctuations the observable holds, as exact rationals: factor * (x - mean) -- the implementation stores their
    binary64 roundings; small denominators keep the exact arithmetic of the model fast"""
    from fractions import Fraction
    xs = [Fraction(x) for x in samples]
    m = sum(xs) / len(xs)
    return [Fraction(factor) * (x - m) for x in xs]


def gen_chain_data(rng, n, kind):
    if kind == "white":
        return [float(rng.randint(-16, 16)) for _ in range(n)]
    if kind == "ar1":
        a = rng.choice([0.5, 0.75, 0.875])
        x, out = 0.0, []
        for _ in range(n):
            x = a * x + rng.randint(-8, 8)
            out.append(round(x * 8) / 8.0)
        return out
    if kind == "constant":
        return [2.5] * n
    if kind == "alternating":
        return [float((-1) ** i * 3 + (i % 3 == 0)) for i in range(n)]
    if kind == "twolevel":
        return [float(4 if (i // 5) % 2 else -4) + rng.randint(-1, 1) for i in range(n)]
    raise ValueError(kind)


def gen_common_spacing_cfgs(rng, n, kind, gap):
    start = rng.choice([1, 1, 2, 7, 100, 1001])
    if kind == "contiguous":
        return [start + gap * i for i in range(n)]
    if kind == "strided":
        s = gap * rng.choice([2, 3])
        return [start + s * i for i in range(n)]
    if kind == "gapped":
        full = [start + gap * i for i in range(n + max(2, n // 3))]
        keep = sorted(rng.sample(range(1, len(full) - 1), n - 2))
        out = [full[0]] + [full[i] for i in keep] + [full[-1]]
        # make sure the smallest difference is the gap itself (the reader of the property: "common spacing")
        return out
    if kind == "bursts":
        # short bursts of measurements separated by long pauses: some lags below the summation window have no pair at all
        m, period = rng.choice([2, 3]), rng.choice([8, 10, 12])
        return [start + gap * (period * (i // m) + i % m) for i in range(n)]
    raise ValueError(kind)


def make_ens_obs(pe, rng, ens, nrep, nmin, nmax, kinds):
    import numpy as np
    gap = rng.choice([1, 1, 1, 2, 5])
    names = [ens] if nrep == 1 and rng.random() < 0.4 else ["%s|r%d" % (ens, k + 1) for k in range(nrep)]
    samples, idl, lay = [], [], {}
    dk = rng.choice(kinds)
    twin = None
    for nm in names:
        n = rng.randint(nmin, nmax)
        k = rng.choice(["contiguous", "contiguous", "strided", "gapped", "gapped", "bursts"])
        c = gen_common_spacing_cfgs(rng, n, k, gap)
        if twin is not None and rng.random() < 0.5 and len(twin) > 8:
            # a second stream with the same first / last configuration and the same number of measurements, holes elsewhere
            full = list(range(twin[0], twin[-1] + 1, gap))
            inner = full[1:-1]
            if len(inner) >= len(twin) - 2:
                c = [full[0]] + sorted(rng.sample(inner, len(twin) - 2)) + [full[-1]]
                k = "twin"
        if twin is None:
            twin = c
        form = rng.choice(["list", "range", "array"])
        if form == "range" and obsutil.is_uniform(c):
            idl.append(range(c[0], c[-1] + 1, c[1] - c[0]))
        elif form == "array":
            idl.append(np.array(c))
        else:
            idl.append(list(c))
        samples.append(np.array(gen_chain_data(rng, len(c), dk)))
        lay[nm] = (k, len(c))
    return pe.Obs(samples, names, idl=idl), lay, dk, {nm: [float(x) for x in smp] for nm, smp in zip(names, samples)}


def impl_term(o, e, raised):
    if raised:
        return "(mkGImpl true 0%Z 0 0 0 0 [] [] [] [])"
    return "(mkGImpl false %s %s %s %s %s %s %s %s %s)" % (
        zlit(int(o.e_windowsize[e])), qlit(float(o.e_tauint[e])), qlit(float(o.e_dtauint[e])), qlit(float(o.e_dvalue[e])), qlit(float(o.e_ddvalue[e])),
        ql(o.e_rho[e]), ql(o.e_drho[e]), ql(o.e_n_tauint.get(e, [])), ql(o.e_n_dtauint.get(e, [])))


def params_term(S, te, ns):
    return "(mkParams %s %s %s)" % (qlit(S), qlit(te), qlit(ns))


def run(ctx):
    import numpy as np
    pe = common.import_pyerrors()
    rng = ctx.rng
    quick = ctx.tier == "quick"
    ctx.rule = ("observables on 1..3 ensembles x 1..3 replicas with contiguous / strided / gapped configuration lists sharing a common spacing (gap 1, 2, 5; replicas of one ensemble with different strides), given as "
                "range / list / ndarray, lengths 5..48 (quick) / 5..160 (thorough); white, AR(1) (a = 0.5 .. 0.875), constant, alternating and two-level data; S in {0, 0.5, 1, 2, 3}, tau_exp in {0, 1, 5}, "
                "N_sigma in {0, 1, 2} given as argument / per-ensemble dictionary / global default; fft on and off (both judged against the same model value); mixed Monte-Carlo + covariance inputs for the totals")
    ctx.trusted += ["hand-written model Obs/Gamma.v tied to obs.py by correspondence", "np.fft is outside the model: the fft=True results are judged against the direct-sum model",
                    "Interval library (verified floating-point intervals, 80 bits) evaluates exp/ln/sqrt of the windowing function"]
    ctx.assumptions += ["tolerance 2^-30 relative; windowing decisions within 2^-30 of a sign change are skipped and counted (near tie)"]
    ctx.copy_props()
    common.tie_pycore(ctx, ["Tie_expand_deltas.v", "Tie_gap.v", "Tie_gamma.v", "Tie_drho.v", "Tie_window.v", "Tie_tauint.v"])

    ncase = 120 if quick else 1200
    nmax = 48 if quick else 160          # exact pair sums cost O(n^2) big-number operations per lag: longer chains take tens of minutes per shard
    cases, tcases = [], []
    saved = (pe.Obs.S_global, pe.Obs.tau_exp_global, pe.Obs.N_sigma_global, dict(pe.Obs.S_dict), dict(pe.Obs.tau_exp_dict), dict(pe.Obs.N_sigma_dict))
    try:
        for i in range(ncase):
            nens = rng.choice([1, 1, 1, 2, 3])
            enames = rng.sample(["A", "ens", "B7", "zeta"], nens)
            parts, lays, raw, factor = [], {}, {}, {}
            for e in enames:
                o, lay, dk, smp = make_ens_obs(pe, rng, e, rng.choice([1, 1, 2, 3]), 5 if rng.random() < 0.3 else 9, nmax, ["white", "ar1", "ar1", "constant", "alternating", "twolevel"])
                parts.append(o)
                lays[e] = {"layout": lay, "data": dk}
                raw.update(smp)
            o = parts[0]
            factor[enames[0]] = 1
            for p_, e_ in zip(parts[1:], enames[1:]):
                f_ = rng.choice([1, 2, -1])
                o = o + p_ * f_
                factor[e_] = f_
            with_cov = rng.random() < 0.25
            if with_cov:
                o = o * pe.cov_Obs(1.5, 0.0625, "cvG") + pe.cov_Obs([0.5, 1.0], [[0.25, 0.0625], [0.0625, 0.5]], "cvH")[1]
                factor = {k_: v_ * 1.5 for k_, v_ in factor.items()}
            exact = {r: exact_deltas(raw[r], factor[r.split("|")[0]]) for r in raw}
            for r in raw:
                if not np.allclose(np.array([float(x) for x in exact[r]]), o.deltas[r], rtol=1e-11, atol=1e-11):
                    ctx.obligation("harness:exact fluctuations equal the stored ones (%s)" % r, False, "replica %s" % r)
            S = rng.choice([0, 0.5, 1, 2, 2, 3])
            te = rng.choice([0, 0, 0, 1, 5])
            ns = rng.choice([0, 1, 1, 2])
            fft = rng.random() < 0.5
            how = rng.choice(["arg", "arg", "dict", "global"])
            pe.Obs.S_global, pe.Obs.tau_exp_global, pe.Obs.N_sigma_global = 2.0, 0.0, 1.0
            pe.Obs.S_dict.clear(); pe.Obs.tau_exp_dict.clear(); pe.Obs.N_sigma_dict.clear()
            per_ens = {e: (S, te, ns) for e in enames}
            kw = {"fft": fft}
            if how == "arg":
                kw.update(S=S, tau_exp=te, N_sigma=ns)
            elif how == "global":
                pe.Obs.S_global, pe.Obs.tau_exp_global, pe.Obs.N_sigma_global = S, te, ns
            else:
                for e in enames:
                    Se, tee, nse = rng.choice([0.5, 1, 2, 3]), rng.choice([0, 0, 2]), rng.choice([0, 1, 2])
                    pe.Obs.S_dict[e], pe.Obs.tau_exp_dict[e], pe.Obs.N_sigma_dict[e] = Se, tee, nse
                    per_ens[e] = (Se, tee, nse)
            raised = False
            try:
                o.gamma_method(**kw)
            except Exception as ex:
                raised = True
                exn = repr(ex)
            ens_terms = []
            for e in sorted(enames):
                reps = o.e_content[e]
                Se, tee, nse = per_ens[e]
                rt = "[%s]" % "; ".join(grep_term(o, r, exact[r]) for r in reps)
                pt = params_term(Se, tee, nse)
                ens_terms.append("(%s, %s)" % (rt, pt))
                if raised:
                    # which ensemble raised is not observable; judge only single-ensemble observables for the error outcome
                    if len(enames) > 1:
                        continue
                try:
                    it = impl_term(o, e, raised)
                except KeyError:
                    it = impl_term(o, e, True)
                scale = max([1e-300] + [float(np.max(np.abs(o.deltas[r]))) for r in reps])
                term = "(mkGC %s %s %s tol30 %s)" % (rt, pt, it, qlit(scale * 2.0 ** -30))
                descr = {"ensemble": e, "layout": lays[e]["layout"], "data": lays[e]["data"], "S": Se, "tau_exp": tee, "N_sigma": nse, "fft": fft, "how": how,
                         "impl": "raised" if raised else {"W": int(o.e_windowsize[e]), "tauint": float(o.e_tauint[e]), "dvalue": float(o.e_dvalue[e])}}
                cases.append({"term": term, "descr": descr, "key": "gamma:%s:%s" % ("tau_exp" if tee > 0 else "S0" if Se == 0 else "auto", lays[e]["data"]),
                              "what": "gamma_method(S=%s, tau_exp=%s, N_sigma=%s, fft=%s) on ensemble %s (%s): window / tauint / errors / rho differ from the Gamma-method definition" % (Se, tee, nse, fft, e, lays[e]["layout"]),
                              "replay": {"descr": descr, "idl": {r: obsutil.obs_struct(o)["idl"][r] for r in reps}, "deltas": {r: [float(x) for x in o.deltas[r]] for r in reps}}})
                ctx.count("branch:" + ("tau_exp" if tee > 0 else "S0" if Se == 0 else "auto")); ctx.count("data:" + lays[e]["data"]); ctx.count("nrep:%d" % len(reps)); ctx.count("fft:%s" % fft); ctx.count("how:" + how)
                for k, _n in lays[e]["layout"].values():
                    ctx.count("idl:" + k)
                ctx.case((e, repr(lays[e]), Se, tee, nse, tuple(float(x) for x in o.deltas[reps[0]][:4])), nontrivial=True,
                         sample=descr if len(ctx.samples) < 3 else None)
            if not raised:
                covs = "[%s]" % "; ".join("(mkCov \"%s\" [%s] %s)" % (n_, "; ".join(ql(r) for r in np.atleast_2d(np.asarray(o.covobs[n_].cov, dtype=float))), ql(np.asarray(o.covobs[n_].grad, dtype=float).ravel())) for n_ in o.cov_names)
                tcases.append({"term": "(mkTC [%s] %s %s %s tol30 %s)" % ("; ".join(ens_terms), covs, qlit(float(o.dvalue)), qlit(float(o.ddvalue)), qlit(2.0 ** -30 * max(1e-300, float(o.dvalue)))),
                               "descr": {"ensembles": sorted(enames), "cov": with_cov, "dvalue": float(o.dvalue)}, "key": "gamma:total", "what": "total error is not sqrt(sum of squared ensemble errors + J Sigma J^T) / ddvalue formula",
                               "replay": {"ensembles": sorted(enames), "cov": with_cov, "dvalue": float(o.dvalue), "ddvalue": float(o.ddvalue)}})
    finally:
        pe.Obs.S_global, pe.Obs.tau_exp_global, pe.Obs.N_sigma_global = saved[:3]
        pe.Obs.S_dict.clear(); pe.Obs.S_dict.update(saved[3]); pe.Obs.tau_exp_dict.clear(); pe.Obs.tau_exp_dict.update(saved[4]); pe.Obs.N_sigma_dict.clear(); pe.Obs.N_sigma_dict.update(saved[5])
    bm, bs, nt = common.judge_cases(ctx, "C02g", HDR, "gcase", [c["term"] for c in cases], ["gcase_model_ok", "gcase_spec_ok", "gcase_not_tie"], shard=8, timeout=2400)
    ctx.skip("windowing decision within 2^-30 of a sign change (near tie)", len(nt))
    common.settle(ctx, "gamma", cases, bm, bs, "model Obs/Gamma.v reproduces gamma_method on every generated ensemble")
    (bt,) = common.judge_cases(ctx, "C02t", HDR, "tcase", [c["term"] for c in tcases], ["tcase_ok"], shard=8, timeout=2400)
    common.settle(ctx, "totals", tcases, [], bt, "n/a")
    ctx.count("total-error cases", len(tcases))


def replay(ctx, doc):
    run(ctx)
