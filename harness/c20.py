"""C20 -- constant tables and special-function derivatives (DESIGN §3 C20)."""
import itertools
import os

from harness import common
from harness.common import qlit, zlit
from translate import t_dirac

LEVEL = "proof"

SPEC_TAGS = ["Identity", "Gamma5", "GammaX", "GammaY", "GammaZ", "GammaT", "GammaXGamma5", "GammaYGamma5",
             "GammaZGamma5", "GammaTGamma5", "SigmaXT", "SigmaXY", "SigmaXZ", "SigmaYT", "SigmaYZ", "SigmaZT"]
UNKNOWN_TAGS = ["", "identity", "Gamma", "GammaXGammaY", "SigmaTX", "Gamma5 ", "Sigma", "GammaTGamma5Gamma5"]


def cmat(a):
    rows = []
    for r in a:
        rows.append("[" + "; ".join("(%s, %s)" % (qlit(float(z.real)), qlit(float(z.imag))) for z in r) + "]")
    return "[" + "; ".join(rows) + "]"


def optq(v):
    return "None" if v is None else "(Some %s)" % qlit(v)


def run(ctx):
    pe = common.import_pyerrors()
    import numpy as np
    import scipy.special
    ctx.rule = ("exhaustive: all index tuples in {-1..5}^3 and {-1..5}^4 (superset of the property's {0..4}^n), all 16 tags + unknown tags, "
                "module arrays entry by entry; K_n for n=0..6 (thorough: -3..8) on a grid of x in (0.05,20); re-exported special functions on grids. "
                "non-trivial = case with a defined (non-rejected) outcome; distinct by input tuple")
    ctx.trusted += ["translator translate/t_dirac.py (which source text becomes which Coq term)",
                    "contract of the oracle scipy.special.kn: K_{-n}=K_n and dK_n/dx = -(K_{n-1}+K_{n+1})/2 (DLMF 10.27.3, 10.29.1), a Section hypothesis",
                    "autograd's own vjps for the re-exported special functions (validated numerically only)"]
    ctx.assumptions += ["numpy complex entries of the Dirac tables are exactly representable (they are 0, +-1, +-i)",
                        "scipy.special.kn is the reference for K_n values (validation-grade for the kn clause)"]
    # ---------------------------------------------------------------- (T) regenerate + prove
    tie_ok = True
    try:
        txt, info = t_dirac.translate_dirac(open(os.path.join(common.REPO, "pyerrors/dirac.py")).read())
        ktxt, kinfo = t_dirac.translate_special(open(os.path.join(common.REPO, "pyerrors/special.py")).read())
        p1 = ctx.write("DiracGen.v", txt)
        p2 = ctx.write("KnGen.v", ktxt)
        ok1, _, _ = ctx.compile_obligation("gen/DiracGen.v", p1)
        ok2, _, _ = ctx.compile_obligation("gen/KnGen.v", p2)
        if ok1 and ok2:
            okp, _, _ = ctx.copy_props()
            tie_ok = okp
        else:
            tie_ok = False
        # the import list: every documented name is imported from autograd (or is kn)
        missing = [n for n in kinfo["all"] if n != "kn" and n not in kinfo["imported"]]
        ctx.obligation("T-kn:__all__ names are autograd re-exports or kn", not missing, str(missing))
    except t_dirac.TranslateError as e:
        ctx.obligation("translator:t_dirac", False, "translator refused: %s" % e)
        tie_ok = False
    except SyntaxError as e:
        ctx.obligation("translator:t_dirac", False, "source does not parse: %s" % e)
        tie_ok = False

    # ---------------------------------------------------------------- (X) run the implementation
    d = pe.dirac
    rng = list(range(-1, 6))
    eps3 = []
    for t in itertools.product(rng, repeat=3):
        try:
            v = float(d.epsilon_tensor(*t))
        except Exception:
            v = None
        eps3.append((t, v))
        ctx.case(("e3", t), nontrivial=v is not None)
    eps4 = []
    for t in itertools.product(rng, repeat=4):
        try:
            v = float(d.epsilon_tensor_rank4(*t))
        except Exception:
            v = None
        eps4.append((t, v))
        ctx.case(("e4", t), nontrivial=v is not None)
    ctx.samples.append({"epsilon_tensor": [list(eps3[60][0]), eps3[60][1]], "epsilon_tensor_rank4": [list(eps4[700][0]), eps4[700][1]]})
    tags = []
    for tag in SPEC_TAGS + UNKNOWN_TAGS:
        try:
            g = np.array(d.Grid_gamma(tag), dtype=complex)
            if g.shape != (4, 4):
                g = None
        except Exception:
            g = None
        tags.append((tag, g))
        ctx.case(("tag", tag), nontrivial=g is not None)
    tables = {}
    for name in ["gammaX", "gammaY", "gammaZ", "gammaT", "gamma5", "identity"]:
        tables[name] = np.array(getattr(d, name), dtype=complex)
    gstack = np.array(d.gamma, dtype=complex)

    hdr = ["From Coq Require Import ZArith QArith List Bool String.",
           "From PV Require Import Base.QAux Tab.CMat Tab.Eps Tab.DiracSpec.",
           "Import ListNotations.", "Open Scope Q_scope.", ""]
    body = list(hdr)
    for n, a in tables.items():
        body.append("Definition rt_%s : mat := %s." % (n, cmat(a)))
    body.append("Definition rt_gamma : list mat := [%s]." % "; ".join(cmat(gstack[i]) for i in range(gstack.shape[0])))
    body.append("Definition rt_grid (tag : string) : option mat :=")
    for tag, g in tags:
        body.append("  if String.eqb tag %s%%string then %s else" % (common.coq_string(tag), "None" if g is None else "Some " + cmat(g)))
    body.append("  None.")
    body.append("Definition rt_eps3 : list (Z*Z*Z*option Q) := [%s]." % "; ".join(
        "(%s,%s,%s,%s)" % (zlit(t[0]), zlit(t[1]), zlit(t[2]), optq(v)) for t, v in eps3))
    body.append("Definition rt_eps4 : list (Z*Z*Z*Z*option Q) := [%s]." % "; ".join(
        "(%s,%s,%s,%s,%s)" % (zlit(t[0]), zlit(t[1]), zlit(t[2]), zlit(t[3]), optq(v)) for t, v in eps4))
    body.append("Definition rt_unknown : list string := [%s]." % "; ".join(common.coq_string(t) + "%string" for t in UNKNOWN_TAGS))
    rt = "\n".join(body) + "\n"
    prt = ctx.write("RtC20.v", rt)
    ok, so, se, _ = common.coqc(prt, ctx.gendir)
    if not ok:
        ctx.obligation("harness:RtC20.v", False, se[-800:])
        return

    # spec judgement of the RUNNING module (independent of the regenerated file): a failure here is a
    # concrete failing input on the real code
    spec = "\n".join([
        "From Coq Require Import ZArith QArith List Bool String.",
        "From PV Require Import Base.QAux Tab.CMat Tab.Eps Tab.DiracSpec.",
        "From PVG Require Import RtC20.", "Import ListNotations.",
        "Definition gX := nth 0 rt_gamma mzero4. Definition gY := nth 1 rt_gamma mzero4.",
        "Definition gZ := nth 2 rt_gamma mzero4. Definition gT := nth 3 rt_gamma mzero4.",
        "Definition checks : list bool := [",
        "  all2 meqb rt_gamma [rt_gammaX; rt_gammaY; rt_gammaZ; rt_gammaT];",
        "  shapes_ok gX gY gZ gT rt_gamma5 rt_identity;",
        "  clifford_ok gX gY gZ gT; hermitian_ok gX gY gZ gT rt_gamma5;",
        "  gamma5_product_ok gX gY gZ gT rt_gamma5; gamma5_anticommutes_ok gX gY gZ gT rt_gamma5;",
        "  identity_ok rt_identity; grid_ok gX gY gZ gT rt_gamma5 rt_grid;",
        "  sigma_is_product_ok gX gY gZ gT rt_grid;",
        "  forallb (fun t => match rt_grid t with None => true | Some _ => false end) rt_unknown ].",
        "Eval vm_compute in bad_cases (fun b : bool => b) checks.",
        "Eval vm_compute in bad_cases (fun c => match c with (i,j,k,v) => optQ_eqb v (spec_eps3 i j k) end) rt_eps3.",
        "Eval vm_compute in bad_cases (fun c => match c with (i,j,k,o,v) => optQ_eqb v (spec_eps4 i j k o) end) rt_eps4.",
        ""])
    ps = ctx.write("SpecJudge.v", spec)
    ok, so, se, _ = common.coqc(ps, ctx.gendir)
    names = ["gamma stack = [X,Y,Z,T]", "4x4 shapes", "Clifford algebra", "hermiticity", "gamma5 = product of the four",
             "gamma5 anticommutes", "identity", "Grid tag = stated product/commutator", "sigma_mu_nu = gamma_mu gamma_nu", "unknown tags rejected"]
    if not ok:
        ctx.obligation("harness:SpecJudge.v", False, se[-800:])
    else:
        b0 = common.parse_z_list(so, 0)
        b3 = common.parse_z_list(so, 1)
        b4 = common.parse_z_list(so, 2)
        for i in b0 or []:
            ctx.fail("dirac-table:%s" % names[i], "running module violates: %s" % names[i],
                     {"check": names[i], "tables": {k: str(v.tolist()) for k, v in tables.items()},
                      "grid": {t: (None if g is None else str(g.tolist())) for t, g in tags}})
        for i in b3 or []:
            t, v = eps3[i]
            ctx.fail("eps3:%s" % ("accepts-outside-domain" if v is not None and not _dom(t, 3) else "rejects-inside-domain" if v is None else "wrong-sign"),
                     "epsilon_tensor%s returned %s; the permutation-sign specification says otherwise" % (t, "an exception" if v is None else v),
                     {"function": "epsilon_tensor", "args": list(t), "impl": v})
        for i in b4 or []:
            t, v = eps4[i]
            ctx.fail("eps4:%s" % ("accepts-outside-domain" if v is not None and not _dom(t, 4) else "rejects-inside-domain" if v is None else "wrong-sign"),
                     "epsilon_tensor_rank4%s returned %s; the permutation-sign specification says otherwise" % (t, "an exception" if v is None else v),
                     {"function": "epsilon_tensor_rank4", "args": list(t), "impl": v})
        ctx.obligation("X:running tables / tensors vs specification (Coq verdict)", True)

    # model judgement: regenerated terms = running module (translator reads the file as the interpreter does)
    if tie_ok or os.path.exists(os.path.join(ctx.gendir, "DiracGen.vo")):
        mj = "\n".join([
            "From Coq Require Import ZArith QArith List Bool String.",
            "From PV Require Import Base.QAux Tab.CMat Tab.Eps.",
            "From PVG Require Import RtC20 DiracGen.", "Import ListNotations.",
            "Definition checks : list bool := [ meqb rt_gammaX gammaX; meqb rt_gammaY gammaY; meqb rt_gammaZ gammaZ; meqb rt_gammaT gammaT;",
            "  meqb rt_gamma5 gamma5; meqb rt_identity identity; all2 meqb rt_gamma gamma;",
            "  forallb (fun t => match rt_grid t, grid_gamma t with Some a, Some b => meqb a b | None, None => true | _, _ => false end) (grid_tags ++ rt_unknown) ].",
            "Eval vm_compute in bad_cases (fun b : bool => b) checks.",
            "Eval vm_compute in bad_cases (fun c => match c with (i,j,k,v) => optQ_eqb v (eps3_model i j k) end) rt_eps3.",
            "Eval vm_compute in bad_cases (fun c => match c with (i,j,k,o,v) => optQ_eqb v (eps4_model i j k o) end) rt_eps4.",
            ""])
        pm = ctx.write("ModelJudge.v", mj)
        ok, so, se, _ = common.coqc(pm, ctx.gendir)
        if not ok:
            ctx.obligation("X:model-vs-implementation (ModelJudge.v)", False, se[-800:])
        else:
            bad = (common.parse_z_list(so, 0) or []) + (common.parse_z_list(so, 1) or []) + (common.parse_z_list(so, 2) or [])
            ctx.obligation("X:regenerated terms equal the running module's arrays and functions", not bad, "disagreeing cases: %s" % bad[:20])

    # ---------------------------------------------------------------- kn and re-exports (validation-grade, verdict in Coq)
    sp = pe.special
    ns = range(0, 7) if ctx.tier == "quick" else range(-3, 9)
    xs = [0.05 + 19.95 * i / 24.0 for i in range(1, 24)] if ctx.tier == "quick" else [0.05 + 19.95 * i / 200.0 for i in range(1, 200)]
    kn_cases = []
    for n in ns:
        for x in xs:
            o = pe.pseudo_Obs(x, 0.01 * x, "ens", samples=50)
            try:
                r = pe.derived_observable(lambda a, **kw: sp.kn(n, a[0]), [o])
                num = float(np.dot(r.deltas["ens"], o.deltas["ens"]) / np.dot(o.deltas["ens"], o.deltas["ens"]))
                val = float(r.value)
            except Exception as e:
                ctx.fail("kn:raises", "kn(%d, Obs(%r)) raised %r" % (n, x, e), {"n": n, "x": x})
                continue
            ref = float(-0.5 * (scipy.special.kn(abs(n - 1), x) + scipy.special.kn(n + 1, x))) if n >= 0 else \
                float(-0.5 * (scipy.special.kn(abs(n - 1), x) + scipy.special.kn(abs(n + 1), x)))
            refv = float(scipy.special.kn(abs(n), x))
            if not (np.isfinite(num) and np.isfinite(ref) and np.isfinite(val) and np.isfinite(refv)):
                ctx.skip("kn non-finite")
                continue
            kn_cases.append((n, x, num, ref, val, refv))
            ctx.case(("kn", n, x))
            # inside a composite expression the incoming cotangent is not 1: c * K_n(x)^2 has derivative 2 c K_n K_n'
            if (n + int(round(x * 10))) % 3 == 0:
                cfac = 0.5 + (n % 4)
                try:
                    r2 = pe.derived_observable(lambda a, **kw: cfac * sp.kn(n, a[0]) ** 2, [o])
                    num2 = float(np.dot(r2.deltas["ens"], o.deltas["ens"]) / np.dot(o.deltas["ens"], o.deltas["ens"]))
                except Exception as e:
                    ctx.fail("kn:raises", "c * kn(%d, Obs(%r)) ** 2 raised %r" % (n, x, e), {"n": n, "x": x})
                    continue
                ref2, refv2 = 2 * cfac * refv * ref, cfac * refv ** 2
                if np.isfinite(num2) and np.isfinite(ref2) and np.isfinite(r2.value):
                    kn_cases.append((n, x, num2, ref2, float(r2.value), refv2))
                    ctx.case(("kn-composite", n, x))
    # non-integer order must be rejected
    for bad_n in (0.5, 1.25, 2.000001):
        try:
            sp.kn(bad_n, 1.0)
            ctx.fail("kn:accepts-non-integer-order", "kn(%r, 1.0) did not raise" % bad_n, {"n": bad_n})
        except TypeError:
            pass
        except Exception:
            pass
        ctx.case(("kn-nonint", bad_n), nontrivial=False)
    # re-exported functions: propagated derivative vs 4th-order central difference
    import autograd.scipy.special as asp  # noqa
    grids = {"j0": [0.3, 1.1, 2.7, 5.2], "y0": [0.4, 1.3, 3.1], "j1": [0.3, 1.2, 4.4], "y1": [0.5, 2.2, 3.9],
             "i0": [0.2, 1.5, 3.0], "i1": [0.2, 1.5, 3.0], "erf": [-1.2, 0.1, 0.9], "erfc": [-0.7, 0.4, 1.6],
             "erfinv": [-0.6, 0.2, 0.8], "erfcinv": [0.3, 1.0, 1.5], "gamma": [0.6, 1.7, 3.2], "gammaln": [0.6, 2.5, 7.1],
             "rgamma": [0.6, 1.7, 3.2], "psi": [0.7, 1.9, 4.2], "digamma": [0.7, 1.9, 4.2], "logit": [0.2, 0.5, 0.85], "expit": [-1.5, 0.2, 2.0]}
    fd_cases = []
    for fn, g in grids.items():
        f = getattr(sp, fn, None)
        sf = getattr(scipy.special, fn, None)
        if f is None or sf is None:
            ctx.skip("re-export missing " + fn)
            continue
        for x in g:
            h = 1e-3 * max(1.0, abs(x))
            ref = float((-sf(x + 2 * h) + 8 * sf(x + h) - 8 * sf(x - h) + sf(x - 2 * h)) / (12 * h))
            try:
                o = pe.pseudo_Obs(x, 0.001, "ens", samples=50)
                r = pe.derived_observable(lambda a, **kw: f(a[0]), [o])
                num = float(np.dot(r.deltas["ens"], o.deltas["ens"]) / np.dot(o.deltas["ens"], o.deltas["ens"]))
            except Exception as e:
                ctx.skip("re-export %s raised" % fn)
                continue
            if np.isfinite(num) and np.isfinite(ref):
                fd_cases.append((fn, x, num, ref))
                ctx.case(("fd", fn, x))
    # re-exported functions of an order and an argument: derivative with respect to the argument, orders 0..3
    for fn in ("jn", "yn", "iv", "ive"):
        f = getattr(sp, fn, None)
        sf = getattr(scipy.special, fn, None)
        if f is None or sf is None:
            ctx.skip("re-export missing " + fn)
            continue
        for n in (0, 1, 2, 3):
            for x in (0.7, 2.3, 4.1):
                h = 1e-3 * max(1.0, abs(x))
                ref = float((-sf(n, x + 2 * h) + 8 * sf(n, x + h) - 8 * sf(n, x - h) + sf(n, x - 2 * h)) / (12 * h))
                try:
                    o = pe.pseudo_Obs(x, 0.001, "ens", samples=50)
                    r = pe.derived_observable(lambda a, **kw: f(n, a[0]), [o])
                    num = float(np.dot(r.deltas["ens"], o.deltas["ens"]) / np.dot(o.deltas["ens"], o.deltas["ens"]))
                except Exception as e:
                    ctx.skip("re-export %s raised" % fn)
                    continue
                if np.isfinite(num) and np.isfinite(ref):
                    fd_cases.append(("%s(%d, .)" % (fn, n), x, num, ref))
                    ctx.case(("fd", fn, n, x))
    kv = "\n".join([
        "From Coq Require Import ZArith QArith List Bool.",
        "From PV Require Import Base.QAux.", "Import ListNotations.", "Open Scope Q_scope.",
        "Definition kn_cases : list (Q*Q*Q*Q) := [%s]." % "; ".join("(%s,%s,%s,%s)" % (qlit(c[2]), qlit(c[3]), qlit(c[4]), qlit(c[5])) for c in kn_cases),
        "Definition fd_cases : list (Q*Q) := [%s]." % "; ".join("(%s,%s)" % (qlit(c[2]), qlit(c[3])) for c in fd_cases),
        "Eval vm_compute in bad_cases (fun c => match c with (a,b,v,w) => closeb (1 # 1000000000) 0 a b && closeb (1 # 1000000000) 0 v w end) kn_cases.",
        "Eval vm_compute in bad_cases (fun c => match c with (a,b) => closeb (1 # 1000000) (1 # 100000000) a b end) fd_cases.", ""])
    pk = ctx.write("KnJudge.v", kv)
    ok, so, se, _ = common.coqc(pk, ctx.gendir)
    if not ok:
        ctx.obligation("harness:KnJudge.v", False, se[-800:])
    else:
        for i in common.parse_z_list(so, 0) or []:
            n, x, num, ref, val, refv = kn_cases[i]
            ctx.fail("kn:wrong-derivative-or-value", "kn(%d, Obs) at x=%r propagates d/dx=%r (value %r); exact -(K_{n-1}+K_{n+1})/2=%r (value %r)" % (n, x, num, val, ref, refv),
                     {"n": n, "x": x, "impl_derivative": num, "reference": ref, "impl_value": val, "ref_value": refv})
        for i in common.parse_z_list(so, 1) or []:
            fn, x, num, ref = fd_cases[i]
            ctx.fail("special:%s-derivative" % fn, "%s(Obs) at x=%r propagates %r; central difference of scipy's function gives %r" % (fn, x, num, ref),
                     {"function": fn, "x": x, "impl_derivative": num, "reference": ref})
    if len(kn_cases) > 5:
        ctx.samples.append({"kn": {"n": kn_cases[5][0], "x": kn_cases[5][1], "impl_dKdx": kn_cases[5][2], "ref": kn_cases[5][3]}})
    ctx.count("eps3 tuples", len(eps3)); ctx.count("eps4 tuples", len(eps4)); ctx.count("tags", len(tags))
    ctx.count("kn cases", len(kn_cases)); ctx.count("re-export derivative cases", len(fd_cases))
    ctx.extra["exhaustive"] = True
    ctx.notes.append("partial: the derivatives of the re-exported autograd special functions are not pyerrors code; they are validated numerically (central differences), not proved")


def _dom(t, n):
    s = set(t)
    if n == 3:
        return s <= {1, 2, 3} or s <= {0, 1, 2}
    return s <= {1, 2, 3, 4} or s <= {0, 1, 2, 3}


def replay(ctx, doc):
    run(ctx)
