"""Layout grammar (DESIGN §2.4) and (de)serialisation of pyerrors Obs to the Coq model's terms."""
from fractions import Fraction

from harness.common import qlit, zlit, coq_string, coq_bool, frac


# ----------------------------------------------------------------------------- idl generators
def gen_cfgs(rng, n, kind):
    """Sorted list of n configuration numbers of the given kind."""
    start = rng.choice([1, 1, 1, 2, 5, 17, 100, 1001])
    if kind == "contiguous":
        return list(range(start, start + n))
    if kind == "strided":
        step = rng.choice([2, 3, 4, 10])
        return list(range(start, start + n * step, step))
    if kind == "gapped":           # range with deletions, common spacing kept
        step = rng.choice([1, 1, 2, 5])
        full = list(range(start, start + (n + max(2, n // 2)) * step, step))
        keep = sorted(rng.sample(range(1, len(full) - 1), n - 2))
        return [full[0]] + [full[i] for i in keep] + [full[-1]]
    if kind == "irregular":        # sorted random subset
        span = n * rng.choice([2, 3, 5])
        return sorted(rng.sample(range(start, start + span), n))
    raise ValueError(kind)


IDL_KINDS = ["contiguous", "contiguous", "strided", "gapped", "irregular"]


def is_uniform(c):
    return len(c) >= 2 and len(set(c[i + 1] - c[i] for i in range(len(c) - 1))) == 1


def gen_layout(rng, nmin=5, nmax=24, max_ens=2, max_rep=3, ens_names=None, mixed=False):
    """dict replica-name -> cfg list.  mixed: an ensemble may carry a bare replica name next to 'ens|r..' names."""
    nens = rng.choice([1, 1, 1, 2, 2, 3][:1 + 2 * max_ens - 1]) if max_ens > 1 else 1
    nens = min(nens, max_ens)
    lay = {}
    pool = ens_names or ["A", "ens", "B7", "zeta"]
    for e in rng.sample(pool, nens):
        nrep = rng.choice([1, 1, 2, 3][:max_rep + 1])
        nrep = min(nrep, max_rep)
        if nrep == 1 and rng.random() < 0.4:
            names = [e]
        else:
            names = ["%s|r%d" % (e, i + 1) for i in range(nrep)]
            if mixed and nrep > 1 and rng.random() < 0.35:
                names[0] = e
        kind = rng.choice(IDL_KINDS)
        for nm in names:
            k = kind if rng.random() < 0.7 else rng.choice(IDL_KINDS)
            lay[nm] = gen_cfgs(rng, rng.randint(nmin, nmax), k)
    return lay


def derive_layout(rng, base, mode):
    """Second-operand layout derived from the first."""
    out = {}
    names = sorted(base)
    if mode == "same":
        return {k: list(v) for k, v in base.items()}
    if mode == "missing_rep":
        ens = sorted(set(n.split("|")[0] for n in names))
        drop = set()
        for e in ens:
            reps = [n for n in names if n.split("|")[0] == e]
            if len(reps) > 1 and rng.random() < 0.8:
                drop.update(rng.sample(reps, rng.randint(1, len(reps) - 1)))
        for n in names:
            if n not in drop:
                out[n] = list(base[n])
        return out or {k: list(v) for k, v in base.items()}
    if mode == "missing_rep_subset":
        # a replica is missing AND the remaining ones carry only part of their configurations: the operand's own sample counts differ from the merged ones
        part = derive_layout(rng, base, "missing_rep")
        return derive_layout(rng, part, rng.choice(["subset_prefix", "subset_stride", "subset_random"]))
    if mode == "other_ensemble":
        return gen_layout(rng, max_ens=1, ens_names=["Q", "other"])
    for n in names:
        c = base[n]
        if mode == "subset_prefix":
            out[n] = c[:max(5, len(c) - rng.randint(1, max(1, len(c) // 2)))]
        elif mode == "subset_stride":
            s = c[::2]
            out[n] = s if len(s) >= 5 else list(c)
        elif mode == "subset_random":
            k = max(5, len(c) - rng.randint(1, max(1, len(c) // 2)))
            out[n] = sorted(rng.sample(c, k)) if k < len(c) else list(c)
        elif mode == "superset":
            extra = [c[-1] + (c[-1] - c[-2]) * (i + 1) for i in range(rng.randint(1, 4))]
            out[n] = c + extra
        elif mode == "overlap":
            step = max(1, min(c[i + 1] - c[i] for i in range(len(c) - 1)))
            k = len(c) // 2
            tail = [c[-1] + step * (i + 1) for i in range(rng.randint(2, 6))]
            out[n] = c[k:] + tail
            if len(out[n]) < 5:
                out[n] = c + tail
        elif mode == "shifted_odd":
            out[n] = [x + 1 for x in c]
        else:
            raise ValueError(mode)
    return out


DERIVE_MODES = ["same", "same", "subset_prefix", "subset_stride", "subset_random", "superset", "overlap",
                "missing_rep", "missing_rep_subset", "other_ensemble", "shifted_odd"]


def gen_data(rng, n, kind="int"):
    if kind == "int":
        return [float(rng.randint(-20, 20)) for _ in range(n)]
    if kind == "ar1":
        x, out = 0.0, []
        for _ in range(n):
            x = 0.75 * x + rng.randint(-8, 8)
            out.append(float(round(x * 4) / 4))
        return out
    if kind == "dyadic":
        return [rng.randint(-2 ** 20, 2 ** 20) / 2.0 ** rng.randint(0, 24) for _ in range(n)]
    if kind == "positive":
        return [float(rng.randint(3, 40)) / 4 for _ in range(n)]
    if kind == "constant":
        return [3.0] * n
    if kind == "alternating":
        return [float((-1) ** i * 2 + 1) for i in range(n)]
    raise ValueError(kind)


def make_obs(pe, rng, layout, kind="int", idl_form="mixed", offset=None):
    """Build a pe.Obs on the given layout (one ensemble per call is NOT required: several
    ensembles are combined by addition of per-ensemble observables, as the library requires)."""
    import numpy as np
    ens = {}
    for n in sorted(layout):
        ens.setdefault(n.split("|")[0], []).append(n)
    parts = []
    for e in sorted(ens):
        names = ens[e]
        samples, idl = [], []
        for n in names:
            c = layout[n]
            d = gen_data(rng, len(c), kind)
            if offset is not None:
                d = [x + offset for x in d]
            samples.append(np.array(d))
            form = idl_form if idl_form != "mixed" else rng.choice(["list", "range", "array"])
            if form == "range" and is_uniform(c):
                idl.append(range(c[0], c[-1] + 1, c[1] - c[0]))
            elif form == "array":
                idl.append(np.array(c))
            else:
                idl.append(list(c))
        parts.append(pe.Obs(samples, names, idl=idl))
    o = parts[0]
    for p in parts[1:]:
        o = o + p
    return o


# ----------------------------------------------------------------------------- serialisation
def idl_term(idl):
    isr = isinstance(idl, range)
    return "(mkIdl %s [%s])" % (coq_bool(isr), "; ".join(zlit(int(c)) for c in idl))


def qlist_term(xs):
    return "[" + "; ".join(qlit(float(x)) for x in xs) + "]"


def obs_term(o, value=None):
    """Coq term of type Obs.Model.obs for a pe.Obs (exact rationals of its floats)."""
    import numpy as np
    covn = list(o.cov_names)
    reps = []
    for n in o.names:
        if n in covn:
            continue
        reps.append("(mkRep %s %s %s %s)" % (coq_string(n), idl_term(o.idl[n]), qlist_term(np.asarray(o.deltas[n], dtype=float)), qlit(float(o.r_values[n]))))
    covs = []
    for n in covn:
        c = o.covobs[n]
        cm = np.atleast_2d(np.asarray(c.cov, dtype=float))
        covs.append("(mkCov %s [%s] %s)" % (coq_string(n), "; ".join(qlist_term(r) for r in cm), qlist_term(np.asarray(c.grad, dtype=float).ravel())))
    v = o.value if value is None else value
    return "(mkObs %s [%s] [%s] %s)" % (qlit(float(v)), "; ".join(reps), "; ".join(covs), coq_bool(bool(o.reweighted)))


def obs_struct(o):
    """JSON-able structural description for replay files / samples."""
    import numpy as np
    return {"value": float(o.value) if not isinstance(o.value, complex) else str(o.value), "names": list(o.names),
            "idl": {n: ("range(%d,%d,%d)" % (o.idl[n].start, o.idl[n].stop, o.idl[n].step) if isinstance(o.idl[n], range) else [int(x) for x in o.idl[n]]) for n in o.idl},
            "deltas": {n: [float(x) for x in np.asarray(o.deltas[n], dtype=float)] for n in o.deltas},
            "r_values": {n: float(o.r_values[n]) for n in o.r_values},
            "covobs": {n: {"cov": np.asarray(o.covobs[n].cov).tolist(), "grad": np.asarray(o.covobs[n].grad).ravel().tolist()} for n in o.cov_names},
            "reweighted": bool(o.reweighted)}


def obs_from_struct(pe, s):
    import numpy as np
    mc = [n for n in s["names"] if n not in s["covobs"]]
    idl = []
    for n in mc:
        v = s["idl"][n]
        if isinstance(v, str):
            a, b, c = [int(t) for t in v[6:-1].split(",")]
            idl.append(range(a, b, c))
        else:
            idl.append(list(v))
    o = pe.Obs([np.array(s["deltas"][n]) for n in mc], mc, idl=idl, means=[s["r_values"][n] for n in mc])
    o._value = s["value"]
    for n, c in s["covobs"].items():
        o.names.append(n)
        o._covobs[n] = pe.covobs.Covobs(0, np.array(c["cov"]), n, grad=np.array(c["grad"]))
    o.reweighted = s["reweighted"]
    return o
