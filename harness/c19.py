"""C19 -- printed value(error) strings and scalar views agree with value and error (DESIGN §3 C19)."""
import math

from harness import common
from harness.common import qlit, coq_string

LEVEL = "proof"

HDR = """From Coq Require Import ZArith QArith List Bool String.
From PV Require Import Base.QAux Obs.Format.
Import ListNotations.
Open Scope Q_scope.
Open Scope string_scope.
"""


def _gen_vd(rng):
    e = rng.randint(-15, 14)
    kind = rng.choice(["random", "random", "pow10-", "pow10+", "carry", "exact", "one"])
    if kind == "random":
        m = rng.uniform(1.0, 10.0)
    elif kind == "pow10-":
        m = 10.0 * (1 - 2.0 ** -rng.randint(3, 40))
    elif kind == "pow10+":
        m = 1.0 + 2.0 ** -rng.randint(3, 40)
    elif kind == "carry":
        m = rng.choice([9.5, 9.95, 9.995, 9.9995, 9.96, 9.4999, 9.949, 9.99951])
    elif kind == "one":
        m = rng.choice([1.0, 2.0, 5.0, 2.5])
    else:
        m = rng.randint(10, 99) / 10.0
    d = m * 10.0 ** e
    r = rng.choice([-4, -2, -1, 0, 0, 1, 1, 2, 3, 5, 8])
    v = rng.uniform(-10, 10) * d * 10.0 ** r
    if rng.random() < 0.05:
        v = 0.0
    if rng.random() < 0.1:
        v = float(round(v))
    return v, d, kind


def run(ctx):
    import numpy as np
    pe = common.import_pyerrors()
    from pyerrors.obs import _format_uncertainty
    from pyerrors.fits import _extract_val_and_dval, _construct_prior_obs
    rng = ctx.rng
    quick = ctx.tier == "quick"
    ctx.rule = ("(value, error) pairs: error mantissa random / just below and above powers of ten (1 +- 2^-j, j=3..40) / at rounding carries (9.5, 9.95, ...) / short decimals, "
                "error exponent -15..14 (30 decades), value = error * 10^r * U(-10,10) with r in -4..8, zero and integer values; significance 1..6; flags '', '+', ' '; "
                "through Obs.__format__/__str__ on analysed observables (value and error read back from the object) and through _format_uncertainty directly; "
                "CObs printing; prior strings; scalar views. distinct by the printed string")
    ctx.trusted += ["Python's float.__format__('.kf') and float() are assumed correctly rounded (IEEE / David Gay); every case cross-checks this by exact character comparison",
                    "np.log10 is an oracle: cases whose error lies within 2^-44 (relative) below a power of ten are skipped and counted",
                    "hand-written model Obs/Format.v tied to obs.py / fits.py by correspondence"]
    ctx.assumptions += ["cases within 2^-40 of a rounding tie of the scaled error are skipped and counted (binary64 product)"]
    ctx.copy_props()
    common.tie_pycore(ctx, ["Tie_plottable.v"])        # the three comprehensions of Corr.plottable, regenerated

    n = 1500 if quick else 30000
    fc = []
    for i in range(n):
        v, d, kind = _gen_vd(rng)
        sig = rng.choice([1, 2, 2, 2, 3, 4, 5, 6])
        flag = rng.choice(["", "", "+", " "])
        via = rng.choice(["obs", "obs", "direct"])
        parsed_t, prior_t = "None", "None"
        try:
            if via == "obs":
                o = pe.cov_Obs(v, d * d, "fmt%d" % (i % 7))
                o.gamma_method()
                v, d = float(o.value), float(o.dvalue)
                if not (d > 0 and math.isfinite(d)):
                    ctx.skip("non-positive error after analysis")
                    continue
                if sig == 2 and flag == "" and rng.random() < 0.5:
                    s = str(o)
                    if repr(o) != "Obs[" + s + "]":
                        ctx.fail("repr", "repr(obs) is not 'Obs[' + str(obs) + ']'", {"value": v, "dvalue": d})
                else:
                    s = format(o, flag + str(sig))
            else:
                s = _format_uncertainty(v, d, sig)
                if flag and s[0] != "-":
                    s = flag + s
            if flag == "":
                pv, pd = _extract_val_and_dval(s)
                parsed_t = "(Some (%s, %s))" % (qlit(float(pv)), qlit(float(pd)))
                if rng.random() < 0.25:
                    p = _construct_prior_obs(s, 0)
                    p.gamma_method()
                    prior_t = "(Some (%s, %s))" % (qlit(float(p.value)), qlit(float(p.dvalue)))
        except Exception as e:
            ctx.fail("format:raises", "formatting / parsing raised %r for value=%r error=%r sig=%d" % (e, v, d, sig), {"value": v, "dvalue": d, "sig": sig, "flag": flag})
            continue
        term = "(mkFC %s %s %d%%nat %s %s %s %s)" % (qlit(v), qlit(d), sig, coq_string(flag), coq_string(s), parsed_t, prior_t)
        descr = {"value": v, "dvalue": d, "sig": sig, "flag": flag, "via": via, "kind": kind, "string": s}
        fc.append({"term": term, "descr": descr, "key": "format:%s" % ("lt1" if d < 1 else "ge1"),
                   "what": "printed string %r for value=%r error=%r (sig %d) does not read back within half a unit of the last digit / prior differs" % (s, v, d, sig),
                   "replay": descr})
        ctx.count("kind:" + kind); ctx.count("sig:%d" % sig); ctx.count("flag:%r" % flag); ctx.count("via:" + via)
        ctx.count("branch:" + ("fexp<0" if d < 1 else "fexp=0" if d < 10 else "fexp>0"))
        ctx.case(s, sample={"value": v, "dvalue": d, "sig": sig, "flag": flag, "string": s})
    bm, bs, sk = common.judge_cases(ctx, "C19f", HDR, "fcase", [c["term"] for c in fc],
                                    ["fcase_model_ok", "fcase_spec_ok", "(fun c => negb (fcase_skip c))"], shard=100)
    ctx.skip("near tie / near power of ten / out of modelled range (decided in Coq)", len(sk))
    common.settle(ctx, "format", fc, bm, bs, "exact digit model Obs/Format.v reproduces every printed character")

    # complex observables
    nc = 150 if quick else 3000
    cc = []
    for i in range(nc):
        v1, d1, _ = _gen_vd(rng)
        v2, d2, _ = _gen_vd(rng)
        sig = rng.choice([1, 2, 2, 3, 4])
        flag = rng.choice(["", "", "+", " "])
        re_ = pe.cov_Obs(v1, d1 * d1, "cre")
        im_ = pe.cov_Obs(v2, d2 * d2, "cim")
        c = pe.CObs(re_, im_)
        c.gamma_method()
        use_str = sig == 2 and flag == "" and rng.random() < 0.5
        try:
            s = str(c) if use_str else format(c, flag + str(sig))
        except Exception as e:
            ctx.fail("cobs-format:raises", "CObs formatting raised %r" % e, {"re": v1, "im": v2, "sig": sig, "flag": flag})
            continue
        term = "(mkCC %s %s %s %s %s %d%%nat %s)" % (coq_string(flag), qlit(float(c.real.value)), qlit(float(c.real.dvalue)),
                                                   qlit(float(c.imag.value)), qlit(float(c.imag.dvalue)), sig, coq_string(s))
        descr = {"re": float(c.real.value), "dre": float(c.real.dvalue), "im": float(c.imag.value), "dim": float(c.imag.dvalue), "sig": sig, "flag": flag, "string": s, "str()": use_str}
        cc.append({"term": term, "descr": descr, "key": "cobs-format", "what": "CObs prints %r; the exact digit model of both parts says otherwise" % s, "replay": descr})
        ctx.case(s, sample=None)
    ctx.count("cobs cases", len(cc))
    bm, sk = common.judge_cases(ctx, "C19c", HDR, "ccase", [c["term"] for c in cc], ["ccase_ok", "(fun c => negb (ccase_skip c))"], shard=100)
    ctx.skip("cobs: near tie / near power of ten", len(sk))
    common.settle(ctx, "cobs", cc, [], bm, "n/a")

    # scalar views
    vc = []
    for i in range(200 if quick else 3000):
        v, d, _ = _gen_vd(rng)
        if (v != 0.0 and abs(v) < 1e-6) or d < 1e-4:
            # is_zero_within_error also returns True through is_zero()'s absolute tolerance 1e-10: keep away from it
            v, d = v * 1e9 + 1.0, d * 1e9 + 1.0
        tiny = i % 8 == 7
        if tiny:
            # comparisons are decided by the central values at every scale: data far below is_zero()'s absolute tolerance
            # (|v| <= sigma * dvalue holds by construction, so is_zero_within_error is True for both reasons)
            v = rng.choice([-1.0, 1.0]) * rng.uniform(1.0, 9.0) * 10.0 ** -rng.randint(11, 15)
            d = 2.5 * abs(v)
        o = pe.cov_Obs(v, d * d, "view")
        o.gamma_method()
        v, d = float(o.value), float(o.dvalue)
        x = rng.choice([v, v + d, v - d, 0.0, rng.uniform(-2, 2) * abs(v), float(np.nextafter(v, 1e300))])
        sg = rng.choice([1, 2, 3, 0.5])
        if tiny:
            x = rng.choice([0.5 * v, 2.0 * v, -v, 0.0, v, 3.0 * v])
            sg = rng.choice([1, 2, 3])
            ctx.count("scalar views at tiny scale")
        zw = bool(o.is_zero_within_error(sg))
        term = "(mkVC %s %s %s %s %s %s %s %s %s %s)" % (qlit(v), qlit(d), qlit(x), qlit(sg), *[("true" if b else "false") for b in (o < x, o <= x, o > x, o >= x)],
                                                        qlit(float(o)), "true" if zw else "false")
        descr = {"value": v, "dvalue": d, "x": x, "sigma": sg}
        vc.append({"term": term, "descr": descr, "key": "scalar-views", "what": "comparison / float() / is_zero_within_error do not use exactly value and error", "replay": descr})
        ctx.case(("view", v, x, sg), nontrivial=False)
    ctx.count("scalar view cases", len(vc))
    (bv,) = common.judge_cases(ctx, "C19v", HDR, "vcase", [c["term"] for c in vc], ["vcase_ok"], shard=200)
    common.settle(ctx, "views", vc, [], bv, "n/a")

    # an observable without error prints as its plain value; plottable uses exactly values and errors
    o = pe.Obs([np.array([1.0, 2.5, 1.25, 0.5, 0.921])], ["plain"])   # never analysed: no error
    if str(o) != str(o.value):
        ctx.fail("plain-value", "an observable without error does not print as its plain value", {"str": str(o)})
    obs = [pe.cov_Obs(rng.uniform(-3, 3), rng.uniform(0.01, 1) ** 2, "pl") for t in range(6)]
    cont = [obs[0], None, obs[2], obs[3], None, obs[5]]
    corr = pe.Corr(cont)
    corr.gamma_method()
    xs, ys, es = corr.plottable()
    exp = [(t, cont[t].value, cont[t].dvalue) for t in range(6) if cont[t] is not None]
    if [(a, b, c) for a, b, c in zip(xs, ys, es)] != exp:
        ctx.fail("plottable", "Corr.plottable does not return exactly the defined timeslices with their values and errors", {"got": [list(xs), list(ys), list(es)]})
    ctx.case("plottable", nontrivial=False)


def replay(ctx, doc):
    run(ctx)
