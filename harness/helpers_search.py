"""Directed search for a failing input of the list / array helpers of pyerrors/obs.py that are tied to the model by translation
(translate/t_pycore.py + coq/props/Tie_*.v).  When such a tie no longer proves, the correspondence generators of the calling check
may not contain the layout that exposes the change (they sample observables, not helper arguments); this module enumerates the
helpers' own small argument space exhaustively - every pair of configuration lists inside a small universe, as `list` and as
`range` - runs the REAL helper and compares with what the property demands of it (union / intersection / value by configuration
number / zero fill by (c - first) // gap).  A disagreement is a concrete failing input of the real code and becomes the replay.
This is a search (bounded, exhaustive in a small scope), not a proof; the proofs are the tie theorems and the model theorems.
"""
import itertools
from fractions import Fraction

import numpy as np

U = 7          # configuration numbers 1..U


def _pool():
    out = []
    for m in range(1, 2 ** U):
        l = [i + 1 for i in range(U) if m >> i & 1]
        out.append(l)
        if len(l) >= 2 and len({b - a for a, b in zip(l, l[1:])}) == 1:
            out.append(range(l[0], l[-1] + 1, l[1] - l[0]))
        elif len(l) == 1:
            out.append(range(l[0], l[0] + 1))
    return out


def _is_ap(l):
    return len(l) >= 2 and len({b - a for a, b in zip(l, l[1:])}) == 1


def _same(a, b):
    return type(a) is type(b) and list(a) == list(b)


def _vals(n, off=0):
    return np.array([float(3 * k * k - 7 * k + 2 + off) for k in range(1, n + 1)])


def _fl(xs):
    return [float(x) for x in xs]


def _fmt(x):
    return repr(x) if isinstance(x, range) else repr(list(x))


def search_merge_idx(obs, fail):
    pool = _pool()
    n = 0
    for a, b in itertools.product(pool, pool):
        n += 1
        want = sorted(set(a) | set(b))
        try:
            got = obs._merge_idx([a, b])
        except IndexError:
            if len(want) == 1 and not _same(a, b):
                continue      # outside the domain of the tie theorem (a single common configuration given in two forms)
            fail("_merge_idx", "_merge_idx([%s, %s]) raised IndexError" % (_fmt(a), _fmt(b)), {"args": [_fmt(a), _fmt(b)]})
            return n
        if list(got) != want:
            fail("_merge_idx", "_merge_idx([%s, %s]) = %s, the union of the configurations is %s" % (_fmt(a), _fmt(b), _fmt(got), want),
                 {"args": [_fmt(a), _fmt(b)], "got": _fmt(got), "expected": want})
            return n
    return n


def search_intersection_idx(obs, fail):
    pool = _pool()
    n = 0
    for a, b in itertools.product(pool, pool):
        n += 1
        want = sorted(set(a) & set(b))
        try:
            got = obs._intersection_idx([a, b])
        except Exception as e:
            fail("_intersection_idx", "_intersection_idx([%s, %s]) raised %r" % (_fmt(a), _fmt(b), e), {"args": [_fmt(a), _fmt(b)]})
            return n
        if list(got) != want:
            fail("_intersection_idx", "_intersection_idx([%s, %s]) = %s, the common configurations are %s" % (_fmt(a), _fmt(b), _fmt(got), want),
                 {"args": [_fmt(a), _fmt(b)], "got": _fmt(got), "expected": want})
            return n
    return n


def search_expand_deltas(obs, fail):
    pool = _pool()
    n = 0
    for idx in pool:
        if len(idx) < 1:
            continue
        for shift in (0, 1, 2, 10):
            sh = range(idx.start + shift, idx.stop + shift, idx.step) if isinstance(idx, range) else [c + shift for c in idx]
            l = list(sh)
            d = _vals(len(l))
            for gap in (1, 2, 3):
                if len(l) >= 2 and gap > min(b - a for a, b in zip(l, l[1:])):
                    continue      # the gap passed by gamma_method never exceeds the smallest spacing of a replica
                n += 1
                if isinstance(sh, range) and sh.step == gap:
                    want = _fl(d)
                else:
                    want = [0.0] * ((l[-1] - l[0] + gap) // gap)
                    for c, x in zip(l, d):
                        want[(c - l[0]) // gap] = float(x)
                try:
                    got = _fl(obs._expand_deltas(d, sh, len(l), gap))
                except Exception as e:
                    fail("_expand_deltas", "_expand_deltas(.., %s, %d, %d) raised %r" % (_fmt(sh), len(l), gap, e), {"idx": _fmt(sh), "gap": gap})
                    return n
                if got != want:
                    fail("_expand_deltas", "_expand_deltas(%s, %s, %d, %d) = %s; placing every fluctuation at (c - first) // gap gives %s"
                         % (_fl(d), _fmt(sh), len(l), gap, got, want), {"idx": _fmt(sh), "gap": gap, "deltas": _fl(d), "got": got, "expected": want})
                    return n
    return n


def search_expand_for_merge(obs, fail):
    pool = _pool()
    n = 0
    for new in pool:
        ln = list(new)
        for m in range(1, 2 ** len(ln)):
            sub = [c for i, c in enumerate(ln) if m >> i & 1]
            forms = [sub]
            if _is_ap(sub):
                forms.append(range(sub[0], sub[-1] + 1, sub[1] - sub[0]))
            for idx in forms:
                for sf in (1, 1.5):
                    n += 1
                    d = _vals(len(sub))
                    look = dict(zip(sub, d))
                    if isinstance(idx, range) and isinstance(new, range) and idx == new:
                        want = [x * sf for x in d] if sf != 1 else list(d)
                    else:
                        want = [look.get(c, 0.0) * len(ln) / len(sub) * sf for c in ln]
                    try:
                        got = _fl(obs._expand_deltas_for_merge(d, idx, len(sub), new, sf))
                    except Exception as e:
                        fail("_expand_deltas_for_merge", "_expand_deltas_for_merge(.., %s, .., %s, %s) raised %r" % (_fmt(idx), _fmt(new), sf, e), {})
                        return n
                    if len(got) != len(want) or any(abs(g - w) > 1e-12 * (1 + abs(w)) for g, w in zip(got, want)):
                        fail("_expand_deltas_for_merge", "_expand_deltas_for_merge(%s, %s, %d, %s, %s) = %s; by configuration number: %s"
                             % (_fl(d), _fmt(idx), len(sub), _fmt(new), sf, got, want), {"idx": _fmt(idx), "new_idx": _fmt(new), "got": got, "expected": want})
                        return n
    return n


def search_reduce_deltas(obs, fail):
    pool = _pool()
    n = 0
    for old in pool:
        lo = list(old)
        d = _vals(len(lo))
        look = dict(zip(lo, d))
        for new in pool:
            if not set(new) <= set(range(1, U + 1)):
                continue
            n += 1
            ok = set(new) <= set(lo)
            try:
                got = _fl(obs._reduce_deltas(d, old, new))
            except ValueError:
                if ok:
                    fail("_reduce_deltas", "_reduce_deltas(.., %s, %s) raised ValueError although every requested configuration is present" % (_fmt(old), _fmt(new)), {})
                    return n
                continue
            except Exception as e:
                fail("_reduce_deltas", "_reduce_deltas(.., %s, %s) raised %r" % (_fmt(old), _fmt(new), e), {})
                return n
            if not ok:
                fail("_reduce_deltas", "_reduce_deltas(.., %s, %s) returned %s although configuration(s) %s are not in the source list"
                     % (_fmt(old), _fmt(new), got, sorted(set(new) - set(lo))), {})
                return n
            want = [float(look[c]) for c in new]
            if got != want:
                fail("_reduce_deltas", "_reduce_deltas(%s, %s, %s) = %s; the fluctuations of the requested configuration numbers are %s"
                     % (_fl(d), _fmt(old), _fmt(new), got, want), {"old": _fmt(old), "new": _fmt(new), "got": got, "expected": want})
                return n
    return n


SEARCHES = {
    "_merge_idx": search_merge_idx,
    "_intersection_idx": search_intersection_idx,
    "_expand_deltas": search_expand_deltas,
    "_expand_deltas_for_merge": search_expand_for_merge,
    "_reduce_deltas": search_reduce_deltas,
}


def search(ctx, funcs):
    """Run the directed searches for the named helpers against the implementation in ctx's repository."""
    import importlib
    obs = importlib.import_module("pyerrors.obs")
    total = 0
    for f in funcs:
        if f not in SEARCHES:
            continue
        if not hasattr(obs, f):
            ctx.obligation("helper-search:%s exists" % f, False, "pyerrors.obs.%s is gone" % f)
            continue

        def fail(name, what, replay, _f=f):
            ctx.fail("helper:%s" % name, what, dict(replay, function="pyerrors.obs.%s" % name, search="exhaustive over configuration lists within 1..%d (list and range forms)" % U))
        k = SEARCHES[f](obs, fail)
        total += k
        ctx.count("helper-search:%s" % f, k)
    ctx.evaluations += total
    return total
