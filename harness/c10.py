"""C10 -- matrix operations on observable matrices satisfy their defining identities (DESIGN §3 C10)."""
import itertools
import warnings

from harness import common, obsutil
from harness.common import qlit
from harness.exprs import E

LEVEL = "proof"

HDR = """From Coq Require Import ZArith QArith List Bool String.
From PV Require Import Base.QAux Base.Expr Obs.Model Obs.Derived Fit.Implicit.
Import ListNotations.
Open Scope Q_scope.
Open Scope string_scope.
"""

VERDICTS = ["rcase_values", "rcase_identities", "rcase_implicit"]
MSG = {"rcase_values": "central values differ from the raw numerical result",
       "rcase_identities": "the defining identity does not hold at the central values",
       "rcase_implicit": "the defining identity does not hold for the fluctuations / covariance gradients (differentiated identity violated on some configuration)"}


class Sym:
    """Allocates expression variables: unknowns (result entries) first, then data (input entries); plain numbers become constants."""

    def __init__(self):
        self.uobs, self.dobs = [], []

    def unknown(self, o):
        self.uobs.append(o)
        return ("u", len(self.uobs) - 1)

    def data(self, o):
        from pyerrors import Obs, cov_Obs
        if not isinstance(o, Obs):
            # the library represents a plain number inside a matrix operation as a covariance input with zero covariance
            # (derived_observable, "workaround for matrix operations containing non Obs data"); the model does the same
            o = cov_Obs(float(o), 0.0, "###dummy_covobs###")
        self.dobs.append(o)
        return ("d", len(self.dobs) - 1)

    def expr(self, tok):
        k, v = tok
        if k == "c":
            return E.const(v)
        return E.var(v if k == "u" else len(self.uobs) + v)


def emat(sym, toks):
    """object array of E from an array of tokens (real), or pair of arrays for complex entries"""
    import numpy as np
    out = np.empty(toks.shape, dtype=object)
    for idx in np.ndindex(toks.shape):
        out[idx] = sym.expr(toks[idx])
    return out


def cdot(a, b):
    """complex matrix product on (re, im) pairs of E arrays"""
    return (a[0] @ b[0] - a[1] @ b[1], a[0] @ b[1] + a[1] @ b[0])


def det_expr(m):
    n = m.shape[0]
    if n == 1:
        return m[0, 0]
    tot = None
    for j in range(n):                                  # cofactor expansion along the first row
        minor = m[1:, [k for k in range(n) if k != j]]
        t = m[0, j] * det_expr(minor)
        t = t if j % 2 == 0 else -t
        tot = t if tot is None else tot + t
    return tot


def run(ctx):
    import numpy as np
    pe = common.import_pyerrors()
    rng = ctx.rng
    quick = ctx.tier == "quick"
    ctx.rule = ("matmul (2..4 factors, real and complex, rectangular), inv (real, complex), cholesky, det, eigh / eigv / eig, pinv and svd (rectangular) on 1x1 .. 4x4 matrices of Obs / CObs whose entries live on one or "
                "several ensembles with regular, irregular and partly overlapping configuration lists, several replicas, covariance inputs, and entries mixed with plain numbers. The defining identities are polynomial systems in the "
                "result and input entries; Coq decides them at the central values and, differentiated symbolically, on every configuration and covariance input. jack_matmul / einsum are compared with the exact product")
    ctx.trusted += ["LAPACK / autograd are oracles judged per case", "Interval library (verified interval arithmetic) evaluated with vm_compute"]
    ctx.assumptions += ["tolerances: identity residual 2^-30 of its first-order scale, differentiated identity 2^-18 of the sum of absolute terms; matrices are drawn well-conditioned (diagonal shifts), eigenvalues separated"]
    ctx.copy_props()
    uniq = itertools.count()

    def entry(i, centre, base, shared):
        kind = rng.choice(["mc"] * 6 + ["cov", "num"])
        if kind == "num":
            return float(centre)
        if kind == "cov":
            return pe.cov_Obs(centre, (0.02 * abs(centre) + 0.01) ** 2, "cm%dx%d" % (i, next(uniq)))
        lay = base if shared or rng.random() < 0.7 else obsutil.gen_layout(rng, nmin=8, nmax=20, max_ens=2, ens_names=["M%dx%d" % (i, next(uniq)), "K%dx%d" % (i, next(uniq))])
        if rng.random() < 0.3:
            lay = obsutil.derive_layout(rng, base, rng.choice(["subset_prefix", "superset", "subset_stride", "missing_rep"]))
        o = obsutil.make_obs(pe, rng, lay, "int")
        return (o - o.value) * (0.02 * (abs(centre) + 0.3) / 3.0) + centre

    def rmat(i, n, m, base, shared, diag=0.0, allow_num=True):
        a = np.empty((n, m), dtype=object)
        for r in range(n):
            for c in range(m):
                v = rng.uniform(-1, 1) + (diag if r == c else 0.0)
                e = entry(i, v, base, shared)
                if not allow_num and not isinstance(e, pe.Obs):
                    e = pe.cov_Obs(v, 0.0004, "cz%dx%d" % (i, next(uniq)))
                a[r, c] = e
        if not any(isinstance(x, pe.Obs) for x in a.ravel()):
            a[0, 0] = pe.cov_Obs(float(a[0, 0]), 0.0004, "cz%dx%d" % (i, next(uniq)))
        if rng.random() < 0.2:
            # an external input whose mean is written as an integer literal (cov_Obs(2, ...)): still a real number
            a[0, 0] = pe.cov_Obs(int(rng.choice([1, 2, 3])) + (int(diag) if diag else 0), 0.0004, "ci%dx%d" % (i, next(uniq)))
            ctx.count("matrix with an integer-literal covariance input at [0,0]")
        return a

    def all_obs(a):
        return all(isinstance(x, pe.Obs) for x in a.ravel())

    def toks_data(sym, a):
        t = np.empty(a.shape, dtype=object)
        for idx in np.ndindex(a.shape):
            t[idx] = sym.data(a[idx])
        return t

    def toks_unknown(sym, a):
        t = np.empty(a.shape, dtype=object)
        for idx in np.ndindex(a.shape):
            t[idx] = sym.unknown(a[idx])
        return t

    cases = []

    def emit(i, op, sym, eqs_builder, descr):
        """eqs_builder is called after all unknowns / data are registered"""
        eqs = eqs_builder()
        nu = len(sym.uobs)
        ic = "(mkICase [%s] %d%%nat %d%%nat [%s] [%s] [%s] [%s] (1 # 2 ^ 18))" % (
            "; ".join(e.coq for e in eqs), nu, nu, "; ".join(qlit(float(o.value)) for o in sym.uobs), "; ".join(qlit(float(o.value)) for o in sym.dobs),
            "; ".join(obsutil.obs_term(o) for o in sym.uobs), "; ".join(obsutil.obs_term(o) for o in sym.dobs))
        term = "(mkRCase %s (1 # 2 ^ 30) None)" % ic
        descr = dict(descr, op=op, unknowns=nu, inputs=len(sym.dobs), equations=len(eqs))
        cases.append({"term": term, "descr": descr, "key": "%s:%s" % (op, descr.get("shape", "")), "replay": descr})
        ctx.count("op:" + op)
        ctx.case((op, tuple(float(o.value) for o in sym.uobs)), nontrivial=True, sample=descr if len(ctx.samples) < 3 else None)

    OPS = ["matmul", "matmul", "cmatmul", "inv", "cinv", "cholesky", "det", "eigh", "eigv", "eig", "pinv", "svd"]
    ncase = 36 if quick else 600
    for i in range(ncase):
        op = OPS[i % len(OPS)] if i < 2 * len(OPS) else rng.choice(OPS)
        base = obsutil.gen_layout(rng, nmin=8, nmax=20, max_ens=2)
        shared = rng.random() < 0.5
        n = rng.choice([1, 2, 2, 3, 3, 4])
        sym = Sym()
        try:
            with warnings.catch_warnings():
                warnings.simplefilter("ignore")
                if op == "matmul":
                    nf = rng.choice([2, 2, 3, 4])
                    dims = [n] * (nf + 1)            # matmul takes equally shaped (square) operands
                    mats = [rmat(i, dims[k], dims[k + 1], base, shared) for k in range(nf)]
                    res = pe.linalg.matmul(*mats)
                    tu = toks_unknown(sym, res)
                    td = [toks_data(sym, a) for a in mats]

                    def eqs():
                        prod = emat(sym, td[0])
                        for t in td[1:]:
                            prod = prod @ emat(sym, t)
                        return list((emat(sym, tu) - prod).ravel())
                    emit(i, op, sym, eqs, {"shape": "x".join(map(str, dims)), "factors": nf})
                elif op == "cmatmul":
                    nf = rng.choice([2, 2, 3])
                    dims = [min(n, 3 if nf == 2 else 2)] * (nf + 1)
                    mats_r = [rmat(i, dims[k], dims[k + 1], base, shared, allow_num=False) for k in range(nf)]
                    mats_i = [rmat(i, dims[k], dims[k + 1], base, shared, allow_num=False) for k in range(nf)]
                    mats = []
                    # mixed operand lists: some factors are real observable matrices (their imaginary part is exactly zero)
                    cm_count = ctx.dist.get("op:cmatmul", 0)
                    if cm_count < 4:      # stratified: real factor first / complex first / alternating / all complex
                        real_f = [[k_ % 2 == 0 for k_ in range(nf)], [k_ % 2 == 1 for k_ in range(nf)], [k_ == 0 for k_ in range(nf)], [False] * nf][cm_count]
                    else:
                        real_f = [rng.random() < 0.35 for _ in range(nf)]
                    if all(real_f):
                        real_f[rng.randrange(nf)] = False
                    for k_, (ar, ai) in enumerate(zip(mats_r, mats_i)):
                        if real_f[k_]:
                            mats.append(ar)
                            mats_i[k_] = np.zeros(ar.shape, dtype=object)
                            for idx in np.ndindex(ar.shape):
                                mats_i[k_][idx] = 0.0
                            continue
                        c = np.empty(ar.shape, dtype=object)
                        for idx in np.ndindex(ar.shape):
                            c[idx] = pe.CObs(ar[idx], ai[idx])
                        mats.append(c)
                    ctx.count("cmatmul real factors: %d of %d" % (sum(real_f), nf))
                    res = pe.linalg.matmul(*mats)
                    rr = np.vectorize(lambda z: z.real, otypes=[object])(res)
                    ri = np.vectorize(lambda z: z.imag, otypes=[object])(res)
                    tu = (toks_unknown(sym, rr), toks_unknown(sym, ri))
                    td = [(toks_data(sym, a), toks_data(sym, b)) for a, b in zip(mats_r, mats_i)]

                    def eqs():
                        prod = (emat(sym, td[0][0]), emat(sym, td[0][1]))
                        for t in td[1:]:
                            prod = cdot(prod, (emat(sym, t[0]), emat(sym, t[1])))
                        return list((emat(sym, tu[0]) - prod[0]).ravel()) + list((emat(sym, tu[1]) - prod[1]).ravel())
                    emit(i, op, sym, eqs, {"shape": "x".join(map(str, dims)), "factors": nf})
                elif op == "inv":
                    a = rmat(i, n, n, base, shared, diag=3.0)
                    res = pe.linalg.inv(a)
                    tu, td = toks_unknown(sym, res), toks_data(sym, a)
                    emit(i, op, sym, lambda: list((emat(sym, td) @ emat(sym, tu) - np.eye(n, dtype=int).astype(object) * E.const(1)).ravel()), {"shape": "%dx%d" % (n, n), "plain_entries": int(sum(not isinstance(x, pe.Obs) for x in a.ravel()))})
                elif op == "cinv":
                    n = min(n, 3)
                    ar, ai = rmat(i, n, n, base, shared, diag=3.0, allow_num=False), rmat(i, n, n, base, shared, allow_num=False)
                    c = np.empty((n, n), dtype=object)
                    for idx in np.ndindex((n, n)):
                        c[idx] = pe.CObs(ar[idx], ai[idx])
                    res = pe.linalg.inv(c)
                    rr = np.vectorize(lambda z: z.real, otypes=[object])(res)
                    ri = np.vectorize(lambda z: z.imag, otypes=[object])(res)
                    tu = (toks_unknown(sym, rr), toks_unknown(sym, ri))
                    td = (toks_data(sym, ar), toks_data(sym, ai))

                    def eqs():
                        pr = cdot((emat(sym, td[0]), emat(sym, td[1])), (emat(sym, tu[0]), emat(sym, tu[1])))
                        return list((pr[0] - np.eye(n, dtype=int).astype(object) * E.const(1)).ravel()) + list(pr[1].ravel())
                    emit(i, op, sym, eqs, {"shape": "%dx%d" % (n, n)})
                elif op in ("cholesky", "eigh", "eigv"):
                    m = rmat(i, n, n, base, shared, allow_num=False)
                    a = m @ m.T
                    for k in range(n):
                        a[k, k] = a[k, k] + (1.0 + 1.3 * k)          # positive definite, separated spectrum
                    a = np.array([[a[r, c] if r >= c else a[c, r] for c in range(n)] for r in range(n)], dtype=object)   # exactly symmetric entries
                    if op == "cholesky":
                        res = pe.linalg.cholesky(a)
                        low = [(r, c) for r in range(n) for c in range(n) if r >= c]
                        tl = {rc: sym.unknown(res[rc]) for rc in low}
                        td = toks_data(sym, a)
                        upper_zero = all(res[r, c] == 0 or (getattr(res[r, c], "value", 1) == 0 and not any(np.any(res[r, c].deltas[nm] != 0) for nm in res[r, c].names)) for r in range(n) for c in range(n) if r < c)
                        if not upper_zero:
                            ctx.fail("cholesky:upper", "the Cholesky factor has non-zero entries above the diagonal", {"n": n})

                        def eqs():
                            L = np.empty((n, n), dtype=object)
                            for r in range(n):
                                for c in range(n):
                                    L[r, c] = sym.expr(tl[(r, c)]) if r >= c else E.const(0)
                            d = L @ L.T - emat(sym, td)
                            return [d[rc] for rc in low]
                        emit(i, op, sym, eqs, {"shape": "%dx%d" % (n, n)})
                    else:
                        if op == "eigh":
                            w, v = pe.linalg.eigh(a)
                        else:
                            v = pe.linalg.eigv(a)
                            w = None
                        tv = toks_unknown(sym, v)
                        tw = [sym.unknown(x) for x in w] if w is not None else None
                        td = toks_data(sym, a)

                        def eqs():
                            A, V = emat(sym, td), emat(sym, tv)
                            out = []
                            gram = V.T @ V
                            for r in range(n):
                                for c in range(r, n):
                                    out.append(gram[r, c] - (1 if r == c else 0))
                            AV = A @ V
                            if tw is not None:
                                for k in range(n):
                                    for r in range(n):
                                        out.append(AV[r, k] - sym.expr(tw[k]) * V[r, k])
                            else:                      # eigenvectors only: V^T A V is diagonal
                                VAV = V.T @ AV
                                for r in range(n):
                                    for c in range(r + 1, n):
                                        out.append(VAV[r, c])
                            return out
                        emit(i, op, sym, eqs, {"shape": "%dx%d" % (n, n)})
                elif op == "det":
                    a = rmat(i, n, n, base, shared, diag=2.0)
                    res = pe.linalg.det(a)
                    tu = sym.unknown(res)
                    td = toks_data(sym, a)
                    emit(i, op, sym, lambda: [sym.expr(tu) - det_expr(emat(sym, td))], {"shape": "%dx%d" % (n, n), "plain_entries": int(sum(not isinstance(x, pe.Obs) for x in a.ravel()))})
                elif op == "eig":
                    n = min(n, 3)
                    a = rmat(i, n, n, base, shared, allow_num=False)
                    for k in range(n):
                        a[k, k] = a[k, k] + 4.0 * k          # real, separated eigenvalues (Gershgorin)
                    res = pe.linalg.eig(a)
                    tw = [sym.unknown(x) for x in res]
                    td = toks_data(sym, a)

                    def eqs():
                        A = emat(sym, td)
                        out = []
                        for k in range(n):
                            S = A.copy()
                            for r in range(n):
                                S[r, r] = S[r, r] - sym.expr(tw[k])
                            out.append(det_expr(S))
                        return out
                    emit(i, op, sym, eqs, {"shape": "%dx%d" % (n, n)})
                elif op == "pinv":
                    r_, c_ = rng.choice([(2, 1), (3, 2), (2, 3), (4, 2), (3, 3), (1, 3)])
                    a = rmat(i, r_, c_, base, shared, diag=2.5, allow_num=False)
                    res = pe.linalg.pinv(a)
                    tu, td = toks_unknown(sym, res), toks_data(sym, a)

                    def eqs():
                        A, P = emat(sym, td), emat(sym, tu)
                        out = list((A @ P @ A - A).ravel())
                        return out
                    emit(i, op, sym, eqs, {"shape": "%dx%d" % (r_, c_)})
                elif op == "svd":
                    r_, c_ = rng.choice([(2, 2), (3, 2), (2, 3), (4, 2), (3, 3)])
                    a = rmat(i, r_, c_, base, shared, allow_num=False)
                    for k in range(min(r_, c_)):
                        a[k, k] = a[k, k] + 2.0 + 1.5 * k
                    u, s_, vh = pe.linalg.svd(a)
                    tu, ts, tv = toks_unknown(sym, u), [sym.unknown(x) for x in s_], toks_unknown(sym, vh)
                    td = toks_data(sym, a)

                    def eqs():
                        U, VH, A = emat(sym, tu), emat(sym, tv), emat(sym, td)
                        k_ = len(ts)
                        US = U.copy()
                        for r in range(r_):
                            for c in range(k_):
                                US[r, c] = US[r, c] * sym.expr(ts[c])
                        out = list((US @ VH - A).ravel())
                        return out
                    emit(i, op, sym, eqs, {"shape": "%dx%d" % (r_, c_)})
        except Exception as e:
            ctx.skip("%s not computed: %s: %s" % (op, type(e).__name__, str(e)[:70]))
            continue

    bads = common.judge_cases(ctx, "C10", HDR, "rcase", [c["term"] for c in cases], VERDICTS, shard=3)
    failing = {}
    for v, lst in zip(VERDICTS, bads):
        for k in lst:
            failing.setdefault(k, []).append(v)
    for k, vs in sorted(failing.items()):
        c = cases[k]
        ctx.fail(c["key"], "%s (%s): %s" % (c["descr"]["op"], c["descr"].get("shape"), "; ".join(MSG[v] for v in vs)), dict(c["descr"], failed_verdicts=vs))

    # ------------------------------------------------------------------ jackknife-based product and einsum: value and O(1/N) fluctuations
    for rep in range(6 if quick else 60):
        N = rng.choice([200, 400])
        n = rng.choice([2, 3])
        cplx = rep % 2 == 1
        idl_kind = ["default", "offset-strided", "gapped"][rep % 3]
        if idl_kind == "default":
            idl = list(range(1, N + 1))
        elif idl_kind == "offset-strided":
            idl = list(range(7, 7 + 3 * N, 3))
        else:
            full = list(range(11, 11 + 2 * N))
            idl = sorted(rng.sample(full, N))

        def mk1():
            return pe.Obs([np.array([rng.gauss(0.0, 0.1) for _ in range(N)]) + rng.uniform(0.5, 2.0)], ["jk"], idl=[idl])

        def mk():
            m = np.empty((n, n), dtype=object)
            for idx in np.ndindex((n, n)):
                m[idx] = pe.CObs(mk1(), mk1()) if cplx else mk1()
            return m
        a, b = mk(), mk()
        with warnings.catch_warnings():
            warnings.simplefilter("ignore")
            exact = pe.linalg.matmul(a, b)
            for nm, got in (("jack_matmul", pe.linalg.jack_matmul(a, b)), ("einsum", pe.linalg.einsum("ij,jk->ik", a, b))):
                for idx in np.ndindex((n, n)):
                    parts = [(exact[idx].real, got[idx].real), (exact[idx].imag, got[idx].imag)] if cplx else [(exact[idx], got[idx])]
                    for e_, g_ in parts:
                        sc = float(np.max(np.abs(e_.deltas["jk"])))
                        same_cfgs = list(e_.idl["jk"]) == list(g_.idl["jk"])
                        dv = abs(e_.value - g_.value)
                        dd = float(np.max(np.abs(e_.deltas["jk"] - g_.deltas["jk"]))) if same_cfgs else float("inf")
                        # value: the jackknife mean differs from f(mean) by the O(1/N) bias; fluctuations agree up to O(1/N) relative, configuration by configuration
                        if not same_cfgs or dv > 20.0 / N * sc or dd > 20.0 / N * sc + 1e-12:
                            ctx.fail("%s:agreement" % nm, "%s (%s, %s configuration list) differs from the exact product beyond O(1/N): value %.3g, fluctuations %.3g (scale %.3g, N = %d), same configurations: %s"
                                     % (nm, "complex" if cplx else "real", idl_kind, dv, dd, sc, N, same_cfgs), {"N": N, "n": n, "complex": cplx, "idl": idl_kind})
                        ctx.case((nm, rep, idx, round(e_.value, 9)), nontrivial=True)
        ctx.count("jackknife:%s:%s" % ("complex" if cplx else "real", idl_kind))


def replay(ctx, doc):
    run(ctx)
