"""C01 -- linear error propagation is exact and aligned by configuration number (DESIGN §3 C01)."""
import math
import os
from fractions import Fraction

from harness import common, obsutil
from harness.common import qlit, coq_string

LEVEL = "proof"


# ----------------------------------------------------------------------------- the SPEC side of each
# operation: value and analytic gradient, written here independently of pyerrors
def _f(x):
    return float(x)


UNARY = {
    # name: (impl(np, o), f(v), df(v), data kind, pre-scale)
    "sqrt": (lambda np, o: np.sqrt(o), math.sqrt, lambda v: 0.5 / math.sqrt(v), "positive", 1.0),
    "log": (lambda np, o: np.log(o), math.log, lambda v: 1.0 / v, "positive", 1.0),
    "exp": (lambda np, o: np.exp(o), math.exp, math.exp, "int", 0.125),
    "sin": (lambda np, o: np.sin(o), math.sin, math.cos, "int", 0.25),
    "cos": (lambda np, o: np.cos(o), math.cos, lambda v: -math.sin(v), "int", 0.25),
    "tan": (lambda np, o: np.tan(o), math.tan, lambda v: 1.0 / math.cos(v) ** 2, "positive", 0.125),
    "sinh": (lambda np, o: np.sinh(o), math.sinh, math.cosh, "int", 0.125),
    "cosh": (lambda np, o: np.cosh(o), math.cosh, math.sinh, "int", 0.125),
    "tanh": (lambda np, o: np.tanh(o), math.tanh, lambda v: 1.0 / math.cosh(v) ** 2, "int", 0.125),
    "arcsin": (lambda np, o: np.arcsin(o), math.asin, lambda v: 1.0 / math.sqrt(1 - v * v), "positive", 0.0625),
    "arccos": (lambda np, o: np.arccos(o), math.acos, lambda v: -1.0 / math.sqrt(1 - v * v), "positive", 0.0625),
    "arctan": (lambda np, o: np.arctan(o), math.atan, lambda v: 1.0 / (1 + v * v), "int", 0.25),
    "arcsinh": (lambda np, o: np.arcsinh(o), math.asinh, lambda v: 1.0 / math.sqrt(v * v + 1), "int", 0.25),
    "arccosh": (lambda np, o: np.arccosh(o), math.acosh, lambda v: 1.0 / math.sqrt(v * v - 1), "positive", 1.0),
    "arctanh": (lambda np, o: np.arctanh(o), math.atanh, lambda v: 1.0 / (1 - v * v), "positive", 0.0625),
    "abs": (lambda np, o: abs(o), abs, lambda v: 1.0 if v > 0 else -1.0, "int", 1.0),
    "neg": (lambda np, o: -o, lambda v: -v, lambda v: -1.0, "int", 1.0),
    "pos": (lambda np, o: +o, lambda v: v, lambda v: 1.0, "int", 1.0),
    "pow3": (lambda np, o: o ** 3, lambda v: v ** 3, lambda v: 3 * v ** 2, "int", 1.0),
    "pow2.5": (lambda np, o: o ** 2.5, lambda v: v ** 2.5, lambda v: 2.5 * v ** 1.5, "positive", 1.0),
    "rpow": (lambda np, o: 1.5 ** o, lambda v: 1.5 ** v, lambda v: 1.5 ** v * math.log(1.5), "int", 0.25),
    "addnum": (lambda np, o: o + 3, lambda v: v + 3, lambda v: 1.0, "int", 1.0),
    "raddnum": (lambda np, o: 2.5 + o, lambda v: 2.5 + v, lambda v: 1.0, "int", 1.0),
    "subnum": (lambda np, o: o - 7, lambda v: v - 7, lambda v: 1.0, "int", 1.0),
    "rsubnum": (lambda np, o: 7 - o, lambda v: 7 - v, lambda v: -1.0, "int", 1.0),
    "mulnum": (lambda np, o: o * 3, lambda v: v * 3, lambda v: 3.0, "int", 1.0),
    "rmulnum": (lambda np, o: -0.5 * o, lambda v: -0.5 * v, lambda v: -0.5, "int", 1.0),
    "divnum": (lambda np, o: o / 4, lambda v: v / 4, lambda v: 0.25, "int", 1.0),
    "rdivnum": (lambda np, o: 3 / o, lambda v: 3 / v, lambda v: -3 / v ** 2, "positive", 1.0),
}

BINARY = {
    "add": (lambda a, b: a + b, lambda x, y: x + y, lambda x, y: (1.0, 1.0), "int"),
    "sub": (lambda a, b: a - b, lambda x, y: x - y, lambda x, y: (1.0, -1.0), "int"),
    "mul": (lambda a, b: a * b, lambda x, y: x * y, lambda x, y: (y, x), "int"),
    "div": (lambda a, b: a / b, lambda x, y: x / y, lambda x, y: (1 / y, -x / y ** 2), "positive"),
    "pow": (lambda a, b: a ** b, lambda x, y: x ** y, lambda x, y: (y * x ** (y - 1), x ** y * math.log(x)), "positive"),
}


def _tern_f(v):
    return v[0] * v[1] - v[2] / (1 + v[1] ** 2) + 2 * v[0] * v[2]


def _tern_g(v):
    return [v[1] + 2 * v[2], v[0] + 2 * v[2] * v[1] / (1 + v[1] ** 2) ** 2, -1 / (1 + v[1] ** 2) + 2 * v[0]]


def _case_term(ops_terms, val, rvals, gs, impl_term, rt, atol):
    return "(mkCase [%s] %s [%s] [%s] %s %s %s)" % (
        "; ".join(ops_terms), qlit(val), "; ".join("(%s, %s)" % (coq_string(n), qlit(v)) for n, v in rvals),
        "; ".join(qlit(g) for g in gs), impl_term, rt, qlit(atol))


def _rvals(ops, f):
    names = sorted(set(n for o in ops for n in o.names if n not in o.cov_names))
    out = []
    for n in names:
        out.append((n, f([float(o.r_values.get(n, o.value)) for o in ops])))
    return out


def _scale(ops, gs, val):
    import numpy as np
    s = abs(val)
    for o, g in zip(ops, gs):
        for n in o.deltas:
            s = max(s, abs(g) * float(np.max(np.abs(o.deltas[n]))) * 64)
        s = max(s, abs(float(o.value)))
    return max(s, 1e-30)


def gen_cases(ctx, pe, ncases):
    import numpy as np
    import autograd.numpy as anp
    rng = ctx.rng
    cases = []   # dicts: term, descr
    kinds_un = sorted(UNARY)
    kinds_bin = sorted(BINARY)
    tries = 0
    cobs_combos, cobs_count = [], [0]
    while len(cases) < ncases and tries < 20 * ncases:
        tries += 1
        idx = len(cases)
        family = rng.choice(["unary", "binary", "binary", "binary", "ternary", "array", "cobs", "cobs", "tree", "covobs"])
        lay = obsutil.gen_layout(rng, nmin=5, nmax=18 if ctx.tier == "quick" else 60, mixed=True)
        mode = rng.choice(obsutil.DERIVE_MODES)
        rt = "tol30"
        try:
            if family == "unary":
                name = kinds_un[idx % len(kinds_un)] if idx < 2 * len(kinds_un) else rng.choice(kinds_un)
                impl, f, df, kind, pre = UNARY[name]
                a = obsutil.make_obs(pe, rng, lay, kind)
                if pre != 1.0:
                    a = a * pre
                if name == "arccosh":
                    a = a + 1.5
                ops = [a]
                res = impl(np, a)
                v = float(a.value)
                val, gs = f(v), [df(v)]
                fl = lambda vs: f(vs[0])
                descr = {"family": family, "op": name, "mode": "-"}
            elif family == "binary":
                name = rng.choice(kinds_bin)
                impl, f, g, kind = BINARY[name]
                a = obsutil.make_obs(pe, rng, lay, kind)
                b = obsutil.make_obs(pe, rng, obsutil.derive_layout(rng, lay, mode), kind)
                if name == "pow":
                    b = b * 0.25
                ops = [a, b]
                res = impl(a, b)
                va, vb = float(a.value), float(b.value)
                val, gs = f(va, vb), list(g(va, vb))
                fl = lambda vs: f(vs[0], vs[1])
                descr = {"family": family, "op": name, "mode": mode}
            elif family == "ternary":
                grad_mode = rng.choice(["autograd", "man_grad", "num_grad"])
                a = obsutil.make_obs(pe, rng, lay, "int")
                b = obsutil.make_obs(pe, rng, obsutil.derive_layout(rng, lay, mode), "int") * 0.25
                c = obsutil.make_obs(pe, rng, obsutil.derive_layout(rng, lay, rng.choice(obsutil.DERIVE_MODES)), "int")
                ops = [a, b, c]
                vs = [float(o.value) for o in ops]
                val, gs = _tern_f(vs), _tern_g(vs)
                func = lambda x, **kw: x[0] * x[1] - x[2] / (1 + x[1] ** 2) + 2 * x[0] * x[2]
                if grad_mode == "autograd":
                    res = pe.derived_observable(func, ops)
                elif grad_mode == "man_grad":
                    res = pe.derived_observable(func, ops, man_grad=gs)
                else:
                    res = pe.derived_observable(func, ops, num_grad=True)
                    rt = "tol20"
                fl = _tern_f
                descr = {"family": family, "op": "x0*x1-x2/(1+x1^2)+2*x0*x2 [%s]" % grad_mode, "mode": mode}
            elif family == "array":
                # array mode through linalg.matmul: (A.B)_ij = sum_k A_ik B_kj as an observable identity
                lays = [lay, obsutil.derive_layout(rng, lay, mode), lay, obsutil.derive_layout(rng, lay, rng.choice(obsutil.DERIVE_MODES))]
                A = np.array([[obsutil.make_obs(pe, rng, lays[(2 * i + j) % 4], "int") for j in range(2)] for i in range(2)])
                B = np.array([[obsutil.make_obs(pe, rng, lays[(i + 2 * j + 1) % 4], "int") for j in range(2)] for i in range(2)])
                out = pe.linalg.matmul(A, B)
                i, j = rng.randint(0, 1), rng.randint(0, 1)
                res = out[i, j]
                ops = [A[i, 0], B[0, j], A[i, 1], B[1, j]]
                vs = [float(o.value) for o in ops]
                fl = lambda v: v[0] * v[1] + v[2] * v[3]
                gs = [vs[1], vs[0], vs[3], vs[2]]
                val = fl(vs)
                # operands of the OTHER entries also shape the merged configuration lists of the array-mode result
                ops_all = [A[0, 0], A[0, 1], A[1, 0], A[1, 1], B[0, 0], B[0, 1], B[1, 0], B[1, 1]]
                descr = {"family": family, "op": "matmul 2x2 entry (%d,%d) (array_mode)" % (i, j), "mode": mode}
                # array mode merges the idl of ALL operands: express the entry as a function of all eight
                idxs = [2 * i + 0, 4 + j, 2 * i + 1, 6 + j]
                gs8 = [0.0] * 8
                for t, g in zip(idxs, gs):
                    gs8[t] += g
                ops, gs = ops_all, gs8
                fl = (lambda idxs: (lambda v: v[idxs[0]] * v[idxs[1]] + v[idxs[2]] * v[idxs[3]]))(idxs)
            elif family == "cobs":
                lay2 = obsutil.derive_layout(rng, lay, mode)
                ar, ai = obsutil.make_obs(pe, rng, lay, "int"), obsutil.make_obs(pe, rng, lay, "int")
                br, bi = obsutil.make_obs(pe, rng, lay2, "int"), obsutil.make_obs(pe, rng, lay2, "int")
                # complex arithmetic in every operand combination: CObs with CObs, a real Obs on either side, a complex number on either side
                # stratified: every (operator, operand kinds, part) combination in turn, products and quotients first
                if not cobs_combos:
                    for ops_ in (["/", "*"], ["+", "-"]):
                        blk = [(o_, k_, p_) for o_ in ops_ for k_ in [("cobs", "cobs"), ("obs", "cobs"), ("cobs", "obs"), ("num", "cobs"), ("cobs", "num")] for p_ in ("real", "imag")]
                        rng.shuffle(blk)
                        cobs_combos.extend(blk)
                cop, kinds, part_sel = cobs_combos[cobs_count[0] % len(cobs_combos)]
                cobs_count[0] += 1
                br = br + 3.0        # keep the divisor away from zero
                num = complex(rng.choice([2.0, -1.5, 0.5]), rng.choice([1.0, -0.75, 0.25]))

                def operand(kind, re_o, im_o):
                    if kind == "cobs":
                        return pe.CObs(re_o, im_o), [re_o, im_o]
                    if kind == "obs":
                        return re_o, [re_o, 0.0]
                    return num, [num.real, num.imag]
                z1, p1 = operand(kinds[0], ar, ai)
                z2, p2 = operand(kinds[1], br, bi)
                parts4 = p1 + p2                                   # [re1, im1, re2, im2]: observables or plain numbers
                prod = {"*": lambda a, b: a * b, "/": lambda a, b: a / b, "+": lambda a, b: a + b, "-": lambda a, b: a - b}[cop](z1, z2)
                cf = {"*": lambda a, b: a * b, "/": lambda a, b: a / b, "+": lambda a, b: a + b, "-": lambda a, b: a - b}[cop]
                part = part_sel
                res = prod.real if part == "real" else prod.imag
                pos = [k for k in range(4) if isinstance(parts4[k], pe.Obs)]
                if cop in "+-":      # the real part of a sum involves the real parts only (the library does not touch the others), likewise the imaginary part
                    pos = [k for k in pos if k % 2 == (0 if part == "real" else 1)]
                if not pos or not isinstance(res, pe.Obs):
                    continue
                ops = [parts4[k] for k in pos]
                consts = [None if isinstance(x, pe.Obs) else float(x) for x in parts4]

                def fl(v, pos=pos, consts=consts, cf=cf, part=part):
                    full = list(consts)
                    for k, x in zip(pos, v):
                        full[k] = x
                    w = cf(complex(full[0], full[1]), complex(full[2], full[3]))
                    return w.real if part == "real" else w.imag
                vs = [float(o.value) for o in ops]
                c1 = complex(*[float(getattr(x, "value", x)) for x in parts4[:2]])
                c2 = complex(*[float(getattr(x, "value", x)) for x in parts4[2:]])
                d1, d2 = {"*": (c2, c1), "/": (1 / c2, -c1 / c2 ** 2), "+": (1, 1), "-": (1, -1)}[cop]
                dfull = [complex(d1), 1j * d1, complex(d2), 1j * d2]        # holomorphic: d/d(re) = dw/dz, d/d(im) = i dw/dz
                gs = [(dfull[k].real if part == "real" else dfull[k].imag) for k in pos]
                val = fl(vs)
                descr = {"family": family, "op": "%s %s %s, %s part" % (kinds[0], cop, kinds[1], part), "mode": mode}
            elif family == "tree":
                # path independence under the property's hypothesis: all operands share their replica sets
                mode2 = rng.choice(["same", "subset_prefix", "subset_stride", "subset_random", "superset", "overlap", "shifted_odd"])
                mode3 = rng.choice(["same", "subset_prefix", "subset_stride", "subset_random", "superset", "overlap"])
                a = obsutil.make_obs(pe, rng, lay, "int")
                b = obsutil.make_obs(pe, rng, obsutil.derive_layout(rng, lay, mode2), "int")
                c = obsutil.make_obs(pe, rng, obsutil.derive_layout(rng, lay, mode3), "positive")
                ops = [a, b, c]
                shape = rng.choice(["(a*b)+c", "(a+b)*(c-a)", "(a/c)*b-a", "((a*b)*c)*a"])
                if shape == "(a*b)+c":
                    res = (a * b) + c
                    fl = lambda v: v[0] * v[1] + v[2]
                    gfun = lambda v: [v[1], v[0], 1.0]
                elif shape == "(a+b)*(c-a)":
                    res = (a + b) * (c - a)
                    fl = lambda v: (v[0] + v[1]) * (v[2] - v[0])
                    gfun = lambda v: [(v[2] - v[0]) - (v[0] + v[1]), v[2] - v[0], v[0] + v[1]]
                elif shape == "(a/c)*b-a":
                    res = (a / c) * b - a
                    fl = lambda v: v[0] / v[2] * v[1] - v[0]
                    gfun = lambda v: [v[1] / v[2] - 1, v[0] / v[2], -v[0] * v[1] / v[2] ** 2]
                else:
                    res = ((a * b) * c) * a
                    fl = lambda v: v[0] * v[1] * v[2] * v[0]
                    gfun = lambda v: [2 * v[0] * v[1] * v[2], v[0] ** 2 * v[2], v[0] ** 2 * v[1]]
                vs = [float(o.value) for o in ops]
                val, gs = fl(vs), gfun(vs)
                descr = {"family": family, "op": shape + " stepwise vs one-shot", "mode": mode2 + "/" + mode3}
            else:  # covobs: external covariance inputs, shared or not
                a = obsutil.make_obs(pe, rng, lay, "int")
                c1 = pe.cov_Obs([1.5, -0.75], [[0.25, 0.0625], [0.0625, 0.5]], "covA")
                cv = c1[0] * 2 + c1[1]
                shared = rng.random() < 0.5
                c2 = pe.cov_Obs(2.0, 0.0625, "covB") if not shared else c1[1] * 0.5
                b = a * cv
                ops = [b, c2, a]
                res = b * c2 + a
                vs = [float(o.value) for o in ops]
                fl = lambda v: v[0] * v[1] + v[2]
                val, gs = fl(vs), [vs[1], vs[0], 1.0]
                descr = {"family": family, "op": "b*c2+a with covobs (shared=%s)" % shared, "mode": "-"}
        except Exception as e:   # an operation the library rejects (e.g. domain): not a case of this property
            ctx.skip("generator: %s raised %s" % (family, type(e).__name__))
            continue
        if not isinstance(res, pe.Obs):
            ctx.skip("result is not an Obs")
            continue
        if not all(math.isfinite(g) for g in gs) or not math.isfinite(val):
            ctx.skip("non-finite spec value")
            continue
        try:
            rvals = _rvals(ops, fl)
        except Exception:
            ctx.skip("spec function undefined on a replica mean")
            continue
        atol = _scale(ops, gs, val) * (2.0 ** -30 if rt == "tol30" else 2.0 ** -18)
        try:
            term = _case_term([obsutil.obs_term(o) for o in ops], val, rvals, gs, obsutil.obs_term(res), rt, atol)
        except ValueError:
            ctx.skip("non-finite number in implementation result")
            continue
        descr["layout"] = {n: ("uniform" if obsutil.is_uniform(c) else "irregular") + ":%d" % len(c) for n, c in lay.items()}
        cases.append({"term": term, "descr": descr, "ops": [obsutil.obs_struct(o) for o in ops], "impl": obsutil.obs_struct(res),
                      "spec": {"value": val, "grads": gs}})
        ctx.count("family:" + family)
        ctx.count("mode:" + str(descr["mode"]))
        ctx.count("nrep:%d" % len(lay))
        for v in descr["layout"].values():
            ctx.count("idl:" + v.split(":")[0])
        nontrivial = len(ops) > 1 or len(lay) > 1 or not all(obsutil.is_uniform(c) for c in lay.values())
        ctx.case((descr["op"], descr["mode"], sorted(descr["layout"].items()), round(val, 9)), nontrivial,
                 sample={"op": descr["op"], "mode": descr["mode"], "layout": descr["layout"], "spec_value": val, "spec_grads": gs})
    return cases


HDR = """From Coq Require Import ZArith QArith List Bool String.
From PV Require Import Base.QAux Obs.Model Obs.Derived Obs.Cases.
Import ListNotations.
Open Scope Q_scope.
Open Scope string_scope.
"""


def judge(ctx, cases, shard=40):
    files = []
    for s in range(0, len(cases), shard):
        chunk = cases[s:s + shard]
        txt = HDR + "Definition cases : list dcase := [\n%s\n].\n" % ";\n".join(c["term"] for c in chunk)
        txt += "Eval vm_compute in bad_cases dcase_model_ok cases.\nEval vm_compute in bad_cases dcase_spec_ok cases.\n"
        files.append(ctx.write("cases_C01_%03d.v" % (s // shard), txt))
    res = []
    outs = common.coqc_many(files, ctx.gendir, 1200)
    for k, (ok, so, se, secs) in enumerate(outs):
        if not ok:
            ctx.obligation("X:cases_C01_%03d.v evaluates" % k, False, (se or so)[-800:])
            continue
        bm = common.parse_z_list(so, 0) or []
        bs = common.parse_z_list(so, 1) or []
        res.append((k * shard, bm, bs))
    return res


def run(ctx):
    pe = common.import_pyerrors()
    ctx.rule = ("seeded generator over the layout grammar (1-3 ensembles x 1-3 replicas; contiguous/strided/gapped/irregular idl; second operands: same, subset prefix/stride/random, "
                "superset, partial overlap, missing replicas, other ensemble, interleaved) x operator families (29 unary overloads, 5 binary, explicit derived_observable in autograd/man_grad/num_grad, "
                "array mode, CObs product, stepwise expression trees vs one-shot, covobs); non-trivial = more than one operand or replica or an irregular idl; distinct by (op, mode, layout, value)")
    ctx.trusted += ["the hand-written model Obs/Derived.v is tied to obs.py by this correspondence only (no translator for derived_observable)",
                    "spec gradients of transcendental functions are evaluated with Python's math module (floats) in the harness"]
    ctx.assumptions += ["tolerance 2^-30 relative + 2^-30*scale absolute (2^-18 for num_grad) absorbs the implementation's rounding",
                        "autograd / numdifftools derivatives of user functions are oracles"]
    okp, _, _ = ctx.copy_props()
    common.tie_pycore(ctx, ["Tie_merge.v", "Tie_scalef.v"])
    n = 300 if ctx.tier == "quick" else 3000
    cases = gen_cases(ctx, pe, n)
    bad_model, bad_spec = [], []
    for base, bm, bs in judge(ctx, cases):
        bad_model += [base + i for i in bm]
        bad_spec += [base + i for i in bs]
    for i in bad_spec:
        c = cases[i]
        ctx.fail("derived:%s:%s" % (c["descr"]["family"], c["descr"]["op"]),
                 "result of %s (operand layout mode %s) differs from the specified value / aligned, up-weighted fluctuations" % (c["descr"]["op"], c["descr"]["mode"]),
                 {"case_index": i, "descr": c["descr"], "operands": c["ops"], "impl": c["impl"], "spec": c["spec"]})
    only_model = [i for i in bad_model if i not in bad_spec]
    ctx.obligation("X:model Obs/Derived.v agrees with derived_observable on all generated cases", not only_model,
                   "cases on which model and implementation disagree although the spec judgement passes: %s; first: %s" % (only_model[:10], cases[only_model[0]]["descr"] if only_model else ""))
    ctx.extra["disagreements_checked"] = len(bad_model)


def replay(ctx, doc):
    ctx.seed = doc.get("seed", ctx.seed)
    ctx.tier = doc.get("tier", ctx.tier)
    import random
    ctx.rng = random.Random("%s/%d" % (ctx.prop, ctx.seed))
    run(ctx)
