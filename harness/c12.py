"""C12 -- dobs / pobs XML export and import are mutually inverse (DESIGN §3 C12)."""
import os
import tempfile
from fractions import Fraction

from harness import common, obsutil
from harness.common import qlit, zlit

LEVEL = "proof"

HDR = """From Coq Require Import ZArith QArith List Bool String.
From PV Require Import Base.QAux Obs.Model IO.Dobs.
Import ListNotations.
Open Scope Q_scope.
"""


def parse_tables(text):
    """independent reading of the emitted XML: {replica id: (cfgs, [column per observable])}, central values, cdata"""
    from lxml import etree
    root = etree.fromstring(text.encode())
    dobs = root.find("dobs")
    arr = dobs.find("array")
    tail = arr.find("symbol").tail if arr.find("symbol") is not None else arr.find("layout").tail
    values = [t for t in tail.split()]
    tables = {}
    for ed in dobs.findall("edata"):
        for a in ed.findall("array"):
            rid = a.find("id").text.strip()
            lay = a.find("layout").text.strip().split()
            nobs = int(lay[2].lstrip("f"))
            toks = a.find("layout").tail.split()
            rows = [toks[k:k + nobs + 1] for k in range(0, len(toks), nobs + 1)]
            tables[rid] = ([int(r[0]) for r in rows], [[r[1 + j] for r in rows] for j in range(nobs)])
    return values, tables


def dec(tok):
    """a printed decimal token as an exact rational"""
    return Fraction(tok.replace("+", "")) if "e" not in tok.lower() else Fraction(float.fromhex(float(tok).hex()))


def count_data(rng, n, force_mean_hit):
    xs = [rng.randint(0, 3) for _ in range(n)]
    if force_mean_hit:
        s = sum(xs)
        xs[-1] += (-s) % n
    return [float(x) for x in xs]


def run(ctx):
    import numpy as np
    pe = common.import_pyerrors()
    import pyerrors.input.dobs as pd_
    rng = ctx.rng
    quick = ctx.tier == "quick"
    ctx.rule = ("lists of 1..4 observables on 1..2 ensembles x 1..3 replicas; the observables of one file on the same / prefix / strided / random subsets / supersets of the configurations and on subsets of the replicas; "
                "range / strided / irregular lists; covariance inputs of dimension 1..3 entering through any component; real-valued data and integer-valued count-like data containing zeros and samples equal to the mean; "
                "gz on/off; separator_insertion True / int / str / None; pobs files likewise. Every (replica, observable) column of the emitted XML is parsed independently and judged in Coq against the writer model, "
                "the reader model and the specification; names, central values, covariance inputs through numeric comparison")
    ctx.trusted += ["lxml, gzip and the '%1.16e' printing / parsing of doubles are outside the model (17 significant digits round-trip a double; covariance data is printed with 15 digits)",
                    "hand-written model IO/Dobs.v tied to input/dobs.py by correspondence"]
    ctx.assumptions += ["tolerance 2^-40 on numbers that pass through the text (2^-36 for covariance data, printed with '%1.14e')"]
    ctx.copy_props()

    cols, pairs = [], []
    nfile = 60 if quick else 1000
    tmpd = tempfile.mkdtemp(prefix="verif_c12_")
    try:
        for i in range(nfile):
            base = obsutil.gen_layout(rng, nmin=5, nmax=10, max_ens=2)
            base = {k: v for k, v in base.items()}
            if any("|" not in k for k in base):
                base = {(k if "|" in k else k + "|r1"): v for k, v in base.items()}
            nobs = rng.randint(1, 4)
            datak = rng.choice(["real", "real", "count", "count-mean"])
            corpus = i == 0       # corpus: the listed finding (a sample equal to the central value) is exercised on every run
            if corpus:
                base, nobs, datak = {"A|r1": list(range(1, 9))}, 1, "count-mean"
            cvdim = rng.choice([0, 0, 1, 2, 3]) if not corpus else 0
            cv = None
            if cvdim:
                m = np.array([[float(rng.randint(1, 4)) if a == b else 0.25 for b in range(cvdim)] for a in range(cvdim)])
                cv = pe.cov_Obs([0.5 + k for k in range(cvdim)], m if cvdim > 1 else float(m[0, 0]), "cvD")
                if cvdim == 1:
                    cv = [cv]
            obsl = []
            for k in range(nobs):
                mode = "same" if (k == 0 or corpus) else rng.choice(["same", "subset_prefix", "subset_stride", "subset_random", "superset", "missing_rep", "overlap"])
                lay = obsutil.derive_layout(rng, base, mode)
                names = sorted(lay)
                ens = sorted(set(n.split("|")[0] for n in names))
                parts = []
                for e in ens:
                    rn = [n for n in names if n.split("|")[0] == e]
                    smp = []
                    for n in rn:
                        L = len(lay[n])
                        if corpus:
                            smp.append(np.array([0.0, 1.0, 2.0, 1.0, 1.0, 3.0, 0.0, 0.0]))
                        elif len(rn) > 1 and n == rn[-1] and rng.random() < 0.3:
                            # an observable frozen on one replica (e.g. a topological charge on a short stream): constant samples
                            smp.append(np.array([float(rng.randint(1, 3))] * L))
                            ctx.count("frozen replica")
                        elif datak == "real":
                            smp.append(np.array([rng.randint(-50, 50) / 8.0 + 0.3 for _ in range(L)]))
                        else:
                            smp.append(np.array(count_data(rng, L, datak == "count-mean")))
                    parts.append(pe.Obs(smp, rn, idl=[lay[n] for n in rn]))
                o = parts[0]
                for p_ in parts[1:]:
                    o = o + p_
                if cv is not None and rng.random() < 0.7:
                    comp = rng.randrange(cvdim)
                    o = o + cv[comp] * float(rng.randint(1, 3))      # gradient only in component `comp`
                obsl.append(o)
            sep = rng.choice([True, True, True, "r", None])
            try:
                text = pd_.create_dobs_string(obsl, "verif", who="verif")
                values, tables = parse_tables(text)
                if rng.random() < 0.3:
                    gz = rng.random() < 0.5
                    fn = os.path.join(tmpd, "f%d" % i)
                    pd_.write_dobs(obsl, fn, "verif", who="verif", gz=gz)
                    back = pd_.read_dobs(fn, gz=gz, separator_insertion=sep)
                else:
                    back = pd_.import_dobs_string(text.encode(), separator_insertion=sep)
            except Exception as e:
                ctx.fail("dobs:raises", "writing / reading a dobs file of %d observables raised %r" % (nobs, e), {"nobs": nobs, "data": datak})
                continue
            if len(back) != nobs:
                ctx.fail("dobs:count", "a file of %d observables comes back with %d" % (nobs, len(back)), {})
                continue

            def back_name(rname):
                """the documented treatment of the separator: '|' is removed on export and re-inserted according to the mode"""
                e, r = rname.split("|")
                flat = e + r
                if sep is True:
                    return e + "|" + r
                if sep is None:
                    return flat
                return flat.replace(sep, "|" + sep)
            for j, (o, b) in enumerate(zip(obsl, back)):
                pairs.append((float(b.value), float(o.value), "central value"))
                for cn in o.cov_names:
                    if cn not in b.cov_names:
                        if np.any(np.asarray(o.covobs[cn].grad) != 0):
                            ctx.fail("dobs:covobs-lost", "covariance input %s with gradient %s is lost on import" % (cn, np.asarray(o.covobs[cn].grad).ravel().tolist()), {"grad": np.asarray(o.covobs[cn].grad).ravel().tolist()})
                        continue
                    for a_, b_ in zip(np.asarray(o.covobs[cn].grad).ravel(), np.asarray(b.covobs[cn].grad).ravel()):
                        pairs.append((float(b_), float(a_), "covariance gradient"))
                    for a_, b_ in zip(np.asarray(o.covobs[cn].cov).ravel(), np.asarray(b.covobs[cn].cov).ravel()):
                        pairs.append((float(b_), float(a_), "covariance matrix"))
                all_reps = sorted(set(n for oo in obsl for n in oo.names if n not in oo.cov_names))
                for rname in all_reps:
                    rid = rname.replace("|", "")
                    union, columns = tables[rid]
                    written = [dec(t) for t in columns[j]]
                    has = rname in o.deltas
                    idx = [int(c) for c in o.idl[rname]] if has else []
                    dl = [float(x) for x in o.deltas[rname]] if has else []
                    off = float(o.r_values[rname] - o.value) if has else 0.0
                    bn = back_name(rname)
                    if bn in b.deltas:
                        bt = "(Some ([%s], [%s]))" % ("; ".join(zlit(int(c)) for c in b.idl[bn]), "; ".join(qlit(float(x)) for x in (b.deltas[bn] + b.r_values[bn])))
                    else:
                        bt = "None"
                    scale = max([1.0, abs(float(o.value))] + [abs(x) for x in dl])
                    term = "(mkDCol [%s] [%s] [%s] %s [%s] %s %s tol40 %s)" % (
                        "; ".join(zlit(c) for c in union), "; ".join(zlit(c) for c in idx), "; ".join(qlit(x) for x in dl), qlit(off),
                        "; ".join(qlit(x) for x in written), qlit(float(o.value)), bt, qlit(scale * 2.0 ** -40))
                    descr = {"data": datak, "replica": rname, "separator_insertion": repr(sep), "obs_index": j, "nobs": nobs, "cfgs": idx, "samples": [x + off + float(o.value) for x in dl], "value": float(o.value),
                             "back_cfgs": None if bn not in b.deltas else [int(c) for c in b.idl[bn]]}
                    cols.append({"term": term, "descr": descr, "key": "dobs:column", "what": "", "replay": descr})
                ctx.count("data:" + datak)
            ctx.count("nobs:%d" % nobs); ctx.count("sep:%r" % (sep,)); ctx.count("cov dim:%d" % cvdim)
            ctx.case(("dobs", i, datak, nobs, repr(sorted(base))), nontrivial=True, sample={"nobs": nobs, "data": datak, "replicas": sorted(base)} if len(ctx.samples) < 3 else None)

        # ---------------------------------------------------------------- pobs (one ensemble, common configuration lists)
        for i in range(15 if quick else 200):
            lay = obsutil.gen_layout(rng, nmin=5, nmax=10, max_ens=1)
            if any("|" not in k for k in lay):
                lay = {k + "|r1": v for k, v in lay.items()}
            nobs = rng.randint(1, 3)
            obsl = []
            for k in range(nobs):
                names = sorted(lay)
                obsl.append(pe.Obs([np.array(count_data(rng, len(lay[n]), False)) if rng.random() < 0.5 else np.array([rng.randint(-9, 9) / 4.0 for _ in lay[n]]) for n in names], names, idl=[lay[n] for n in names]))
            fn = os.path.join(tmpd, "p%d" % i)
            try:
                gz = rng.random() < 0.5
                pd_.write_pobs(obsl, fn, "verif", gz=gz)
                back = pd_.read_pobs(fn, gz=gz, separator_insertion=len(sorted(lay)[0].split("|")[0]))
            except Exception as e:
                ctx.fail("pobs:raises", "writing / reading a pobs file raised %r" % e, {"replicas": sorted(lay)})
                continue
            for o, b in zip(obsl, back):
                pairs.append((float(b.value), float(o.value), "pobs central value"))
                for n in o.deltas:
                    if n not in b.deltas or list(b.idl[n]) != list(o.idl[n]):
                        ctx.fail("pobs:chains", "pobs round trip changes chain names or configuration lists", {"name": n, "back": list(b.names)})
                        continue
                    for a_, b_ in zip(o.deltas[n] + o.r_values[n], b.deltas[n] + b.r_values[n]):
                        pairs.append((float(b_), float(a_), "pobs sample"))
            ctx.case(("pobs", i, nobs), nontrivial=False)
    finally:
        import shutil
        shutil.rmtree(tmpd, ignore_errors=True)

    bm, bs, eqv, zs = common.judge_cases(ctx, "C12", HDR, "dcol", [c["term"] for c in cols],
                                         ["dcol_model_ok", "dcol_spec_ok", "(fun c => negb (has_sample_eq_value c))", "(fun c => negb (has_zero_sample c))"], shard=150)
    eqv, zs = set(eqv), set(zs)
    for i_ in bs:
        c = cols[i_]
        kind = "sample-equals-central-value" if i_ in eqv else "zero-sample" if i_ in zs else "other"
        c["key"] = "dobs:column:" + kind
        c["what"] = ("dobs round trip of observable %d on replica %s (%s data): configurations %s come back as %s [%s]" % (
            c["descr"]["obs_index"], c["descr"]["replica"], c["descr"]["data"], c["descr"]["cfgs"], c["descr"]["back_cfgs"], kind))
    common.settle(ctx, "columns", cols, bm, bs, "model IO/Dobs.v writes and reads every column exactly like create_dobs_string / import_dobs_string")
    ctx.count("columns judged", len(cols))

    txt = HDR + "Definition pairs : list (Q * Q) := [%s].\nEval vm_compute in bad_cases (fun p => closeb (1 # 2 ^ 36) (1 # 2 ^ 36) (fst p) (snd p)) pairs.\n" % "; ".join("(%s, %s)" % (qlit(a), qlit(b)) for a, b, _ in pairs)
    p = ctx.write("Pairs.v", txt)
    ok, so, se, _ = common.coqc(p, ctx.gendir)
    if not ok:
        ctx.obligation("X:Pairs.v evaluates", False, se[-500:])
    else:
        for i_ in common.parse_z_list(so, 0) or []:
            ctx.fail("dobs:" + pairs[i_][2].replace(" ", "-"), "%s is not restored: %r vs %r" % (pairs[i_][2], pairs[i_][0], pairs[i_][1]), {"what": pairs[i_][2], "got": pairs[i_][0], "expected": pairs[i_][1]})
    ctx.count("numeric comparisons", len(pairs))


def replay(ctx, doc):
    run(ctx)
