"""C07 -- linear least-squares fits reproduce the closed-form GLS estimator (DESIGN §3 C07)."""
import warnings
from fractions import Fraction

from harness import common, obsutil
from harness.common import qlit, zlit

LEVEL = "proof"

HDR = """From Coq Require Import ZArith QArith List Bool String.
From PV Require Import Base.QAux Obs.Model Obs.Derived Lin.Mat Fit.Gls.
Import ListNotations.
Open Scope Q_scope.
Open Scope string_scope.
"""


def mat_term(m):
    return "[" + "; ".join("[" + "; ".join(qlit(x) for x in row) + "]" for row in m) + "]"


# model families, linear in p: (python function for pyerrors (autograd-friendly), basis evaluated exactly for the model)
def fam_poly(deg):
    def f(p, x):
        r = p[0] + 0 * x
        for j in range(1, deg + 1):
            r = r + p[j] * x ** j
        return r
    return f, (lambda x: [Fraction(x) ** j for j in range(deg + 1)]), deg + 1


def fam_2d():
    def f(p, x):
        return p[0] + p[1] * x[0] + p[2] * x[1] + p[3] * x[0] * x[1]
    return f, (lambda x: [Fraction(1), Fraction(x[0]), Fraction(x[1]), Fraction(x[0]) * Fraction(x[1])]), 4


def fam_rational():
    def f(p, x):
        return p[0] + p[1] / (1 + x) + p[2] * x
    return f, (lambda x: [Fraction(1), 1 / (1 + Fraction(x)), Fraction(x)]), 3


def run(ctx):
    import numpy as np
    pe = common.import_pyerrors()
    import pyerrors.fits as pf
    pf.print = lambda *a, **k: None
    rng = ctx.rng
    quick = ctx.tier == "quick"
    ctx.rule = ("models linear in the parameters: polynomials of degree 0..3, a two-dimensional basis (1, x0, x1, x0 x1), a rational basis (1, 1/(1+x), x); single fits and combined (dictionary) fits with shared parameters and "
                "shuffled key / point order; data on shared and separate ensembles (correlated, autocorrelated, partly overlapping configuration lists) and covariance inputs; priors as list / dict of Obs and 'value(err)' strings on "
                "any parameter subset; correlated_fit with estimated and with user-supplied inverse Cholesky factor; methods Levenberg-Marquardt, migrad, Nelder-Mead, Powell; num_grad on/off. Judged: value, every fluctuation "
                "and covariance gradient of every parameter, chi-square, degrees of freedom")
    ctx.trusted += ["scipy / iminuit minimisers and autograd / numdifftools Hessians are oracles: their result is judged against the exact closed form", "hand-written model Fit/Gls.v (closed-form GLS with a certifying exact solve)"]
    ctx.assumptions += ["tolerance 2^-20 for Levenberg-Marquardt, 2^-9 for migrad / Nelder-Mead / Powell (stopping error of the minimiser); p-values are not judged (scipy.stats)"]
    ctx.copy_props()
    common.tie_pycore(ctx, ["Tie_corrfit.v"])

    import itertools
    uniq = itertools.count()
    cases = []
    ncase = 36 if quick else 700
    for i in range(ncase):
        fam = rng.choice(["poly0", "poly1", "poly1", "poly2", "poly3", "2d", "rational", "combined"])
        method = rng.choice(["Levenberg-Marquardt"] * 5 + ["migrad", "Nelder-Mead", "Powell"])
        num_grad = rng.random() < 0.25
        corr_mode = rng.choice(["none", "none", "estimated", "supplied"])
        prior_mode = rng.choice(["none", "none", "list", "dict"])
        npts = rng.randint(5, 8)
        base = obsutil.gen_layout(rng, nmin=24, nmax=40, max_ens=1)
        shared = rng.random() < 0.6
        cv = pe.cov_Obs(1.0, 0.01, "cvF") if rng.random() < 0.2 else None

        def mk_y(center):
            lay = base if shared else obsutil.gen_layout(rng, nmin=24, nmax=40, max_ens=1, ens_names=["E%dx%d" % (i, next(uniq))])
            if shared and rng.random() < 0.3:
                lay = obsutil.derive_layout(rng, base, rng.choice(["subset_prefix", "superset", "subset_stride"]))
            o = obsutil.make_obs(pe, rng, lay, "int") * 0.05 + center
            if cv is not None:
                o = o * cv
            return o
        try:
            if fam == "combined":
                fa, ba, na = fam_poly(1)
                keys = ["a", "b"]
                xs = {"a": [float(k + 1) for k in range(npts)], "b": [float(k) + 0.5 for k in range(npts - 1)]}
                funcs = {"a": lambda p, x: p[0] + p[1] * x, "b": lambda p, x: p[0] + p[2] * x}
                basis = {"a": lambda x: [Fraction(1), Fraction(x), Fraction(0)], "b": lambda x: [Fraction(1), Fraction(0), Fraction(x)]}
                npar = 3
                ys = {k: [mk_y(1.0 + 0.3 * x) for x in xs[k]] for k in keys}
                order = list(keys); rng.shuffle(order)
                xd = {k: np.array(xs[k]) for k in order}; yd = {k: ys[k] for k in order}; fd = {k: funcs[k] for k in order}
                y_all = [o for k in sorted(keys) for o in ys[k]]
                A = [basis[k](x) for k in sorted(keys) for x in xs[k]]
                call_x, call_y, call_f = xd, yd, fd
            else:
                if fam.startswith("poly"):
                    f, basis, npar = fam_poly(int(fam[4]))
                    xs = [float(k + 1) * 0.5 for k in range(npts)]
                    rng.shuffle(xs)
                    A = [basis(x) for x in xs]
                    call_x = np.array(xs)
                elif fam == "2d":
                    f, basis, npar = fam_2d()
                    pts = [(float(rng.randint(1, 4)), float(rng.randint(1, 5)) * 0.5) for _ in range(npts + 1)]
                    pts = list(dict.fromkeys(pts))
                    if len(pts) < 5:
                        continue
                    A = [basis(x) for x in pts]
                    call_x = np.array(pts).T
                    xs = pts
                else:
                    f, basis, npar = fam_rational()
                    xs = [float(k) * 0.5 for k in range(npts)]
                    A = [basis(x) for x in xs]
                    call_x = np.array(xs)
                y_all = [mk_y(1.0 + 0.2 * k) for k in range(len(A))]
                call_y, call_f = y_all, f
            if len(y_all) <= npar:
                continue
            for o in y_all:
                o.gamma_method(S=rng.choice([0, 1, 2]))
            kw = {"silent": True}
            if method != "Levenberg-Marquardt":
                kw["method"] = method
                if method == "migrad":
                    kw["tol"] = 1e-7
            if num_grad:
                kw["num_grad"] = True
            mask, prior_objs, denoted = [], None, []
            if prior_mode != "none":
                which = sorted(rng.sample(range(npar), rng.randint(1, npar))) if prior_mode == "dict" else list(range(npar))
                entries, denoted = [], []
                for j in which:
                    if rng.random() < 0.5:
                        # 'value(err)' strings in both documented notations; the numbers they denote are fixed HERE, not read back from the library
                        if rng.random() < 0.5:
                            digits = rng.randint(5, 40)
                            # the printed value fixes the decimal place of the bracket: trailing zeros count ('1.30(12)' = 1.30 +- 0.12)
                            sval = rng.choice(["%.2f", "%.1f0", "%.3f", "%.2f0"]) % rng.uniform(0.5, 2.0)
                            ndec = len(sval.split(".")[1])
                            entries.append("%s(%d)" % (sval, digits))
                            denoted.append((Fraction(sval), Fraction(digits, 10 ** ndec)))
                            continue
                        else:
                            sval = rng.choice(["%.1f", "%.2f"]) % rng.uniform(0.5, 2.0)
                            serr = rng.choice(["0.%d" % rng.randint(1, 9), "0.%02d" % rng.randint(5, 60), "1.%d" % rng.randint(0, 5)])
                            entries.append("%s(%s)" % (sval, serr))
                            denoted.append((Fraction(sval), Fraction(serr)))
                    else:
                        po = pe.cov_Obs(rng.uniform(0.5, 2.0), rng.uniform(0.05, 0.4) ** 2, "pr%d_%d" % (i, j))
                        po.gamma_method()
                        entries.append(po)
                        denoted.append(None)
                kw["priors"] = entries if prior_mode == "list" else dict(zip(which, entries))
                mask = which
            with warnings.catch_warnings():
                warnings.simplefilter("ignore")
                if corr_mode != "none":
                    kw["correlated_fit"] = True
                    corr = pe.covariance(y_all, correlation=True)
                    dy = np.array([o.dvalue for o in y_all])
                    chol_inv = pe.obs.invert_corr_cov_cholesky(corr, np.diag(1 / dy))
                    if corr_mode == "supplied":
                        kw["inv_chol_cov_matrix"] = [chol_inv, sorted(call_x.keys()) if isinstance(call_x, dict) else [""]]
                    W = chol_inv
                else:
                    W = np.diag(1 / np.array([o.dvalue for o in y_all]))
                res = pf.least_squares(call_x, call_y, call_f, **kw)
        except Exception as e:
            ctx.skip("fit not performed: %s: %s" % (type(e).__name__, str(e)[:80]))
            continue
        pri = []
        if prior_mode != "none":
            pri = [res.priors[j] for j in mask] if isinstance(res.priors, dict) else list(res.priors)
        ops = list(y_all) + pri
        rt = "tol20" if method == "Levenberg-Marquardt" else "(1 # 2 ^ 9)"
        scale = max([1.0] + [abs(float(p.value)) for p in res.fit_parameters] + [float(np.max(np.abs(o.deltas[n]))) for o in ops for n in o.deltas])
        fit_t = "(mkFit %s [%s] %s [%s] [%s] [%s] %d%%nat)" % (
            mat_term(A), "; ".join(qlit(float(o.value)) for o in y_all), mat_term([[float(x) for x in row] for row in W]),
            "; ".join("%d%%nat" % j for j in mask), "; ".join(qlit(dn[0] if dn else float(p.value)) for p, dn in zip(pri, denoted)), "; ".join(qlit(dn[1] if dn else float(p.dvalue)) for p, dn in zip(pri, denoted)), npar)
        term = "(mkFitCase %s [%s] [%s] %s %s %s %s)" % (fit_t, "; ".join(obsutil.obs_term(o) for o in ops), "; ".join(obsutil.obs_term(p) for p in res.fit_parameters),
                                                      qlit(float(res.chisquare)), zlit(int(res.dof)), rt, qlit(scale * (2.0 ** -20 if method == "Levenberg-Marquardt" else 2.0 ** -9)))
        descr = {"family": fam, "method": method, "num_grad": num_grad, "correlated": corr_mode, "priors": prior_mode, "npar": npar, "npoints": len(y_all), "shared_ensemble": shared,
                 "fit_values": [float(p.value) for p in res.fit_parameters], "chisquare": float(res.chisquare), "dof": int(res.dof)}
        cases.append({"term": term, "descr": descr, "key": "gls:%s:%s:%s" % (fam, corr_mode, prior_mode),
                      "what": "least_squares (%s, %s, correlated=%s, priors=%s, num_grad=%s): parameters / fluctuations / chi-square / dof differ from the closed-form GLS estimator" % (fam, method, corr_mode, prior_mode, num_grad),
                      "replay": descr})
        ctx.count("family:" + fam); ctx.count("method:" + method); ctx.count("correlated:" + corr_mode); ctx.count("priors:" + prior_mode); ctx.count("num_grad:%s" % num_grad)
        ctx.case((fam, method, corr_mode, prior_mode, tuple(descr["fit_values"])), nontrivial=True, sample=descr if len(ctx.samples) < 3 else None)
    (bs,) = common.judge_cases(ctx, "C07", HDR, "fcase", [c["term"] for c in cases], ["fcase_ok"], shard=3)
    common.settle(ctx, "gls", cases, [], bs, "n/a")

    # Corr.fit selects exactly the defined timeslices of the inclusive range
    lay = {"ens": list(range(1, 31))}
    T = 12
    obs = [obsutil.make_obs(pe, rng, lay, "int") * 0.05 + (2.0 + 0.35 * t) for t in range(T)]
    pat = [True] * T
    for t in (3, 6, 7):
        pat[t] = False
    c = pe.Corr([o if k else None for o, k in zip(obs, pat)])
    c.gamma_method()
    r = c.fit(lambda p, x: p[0] + p[1] * x, [1, 10], silent=True)
    ts = [t for t in range(1, 11) if pat[t]]
    ref = pf.least_squares(np.array(ts), [obs[t] for t in ts], lambda p, x: p[0] + p[1] * x, silent=True)
    if any(abs(a.value - b.value) > 1e-9 * max(1, abs(b.value)) for a, b in zip(r.fit_parameters, ref.fit_parameters)) or r.dof != ref.dof:
        ctx.fail("corr-fit:range", "Corr.fit over [1, 10] with undefined timeslices 3, 6, 7 does not fit exactly the defined timeslices at their own x", {"fit": [p.value for p in r.fit_parameters], "reference": [p.value for p in ref.fit_parameters]})
    ctx.case(("corr.fit", tuple(ts)), nontrivial=True)


def replay(ctx, doc):
    run(ctx)
