"""C09 -- roots and integrals of observable-dependent functions propagate errors exactly (DESIGN §3 C09)."""
import warnings

from harness import common, obsutil
from harness import exprs as X
from harness.common import qlit
from harness.exprs import E

LEVEL = "proof"

HDR = """From Coq Require Import ZArith QArith List Bool String.
From PV Require Import Base.QAux Base.Expr Obs.Model Obs.Derived Fit.Implicit.
Import ListNotations.
Open Scope Q_scope.
Open Scope string_scope.
"""

VERDICTS = ["rcase_values", "rcase_root", "rcase_closed", "rcase_implicit"]
MSG = {"rcase_values": "central value is not the solver's / integrator's result",
       "rcase_root": "the defining equation does not hold at the central values",
       "rcase_closed": "the central value differs from the closed form",
       "rcase_implicit": "fluctuations / covariance gradients are not those of the inverse function / of the analytic antiderivative"}


def root_families():
    """name -> (nd, f(x, d) builder, closed-form inverse builder or None, centres of d, guess)"""
    return {
        "cube": (1, lambda x, d: x * x * x - d[0], lambda d: X.exp(X.log(d[0]) / 3), [2.5], 1.0),
        "power5": (1, lambda x, d: x ** 5 - d[0] * d[0], lambda d: X.exp(2 * X.log(d[0]) / 5), [1.7], 1.0),
        "gauss": (1, lambda x, d: X.exp(-x * x) - d[0], lambda d: X.sqrt(-X.log(d[0])), [0.45], 0.8),
        "explog": (1, lambda x, d: X.exp(x) - d[0], lambda d: X.log(d[0]), [3.2], 1.0),
        "logexp": (1, lambda x, d: X.log(x) - d[0], lambda d: X.exp(d[0]), [0.6], 1.5),
        "tanh": (1, lambda x, d: X.tanh(x) - d[0], lambda d: X.log((1 + d[0]) / (1 - d[0])) / 2, [0.55], 0.5),
        "cubic": (1, lambda x, d: x * x * x + x - d[0], None, [3.0], 1.0),
        "affine3": (3, lambda x, d: d[0] * x + d[1] - d[2], lambda d: (d[2] - d[1]) / d[0], [1.6, 0.4, 2.9], 1.0),
        "expvec": (2, lambda x, d: d[0] * X.exp(d[1] * x) - 1, lambda d: -X.log(d[0]) / d[1], [0.4, 0.7], 1.0),
        # first input with central value exactly 0.0 (vacuum-subtracted quantity, vanishing correction) and a non-zero root
        "zerofirst": (1, lambda x, d: x * x * x - 2 - d[0], lambda d: X.exp(X.log(2 + d[0]) / 3), [0.0], 1.0),
        "zerovec": (2, lambda x, d: X.exp(x) - d[1] - d[0] * x, None, [0.0, 2.5], 1.0),
        "cubicvec": (2, lambda x, d: d[0] * x ** 3 + X.sin(x) - d[1], None, [0.8, 2.2], 1.0),
    }


def quad_families():
    """name -> (npar, integrand f(p, x), antiderivative Fa(p, x), parameter centres, (a, b))"""
    return {
        "poly": (3, lambda p, x: p[0] + p[1] * x + p[2] * x * x, lambda p, x: p[0] * x + p[1] * x * x / 2 + p[2] * x ** 3 / 3, [0.7, -0.4, 1.1], (0.3, 1.9)),
        "exp": (2, lambda p, x: p[0] * X.exp(-p[1] * x), lambda p, x: -p[0] / p[1] * X.exp(-p[1] * x), [1.3, 0.6], (0.2, 2.5)),
        "trig": (3, lambda p, x: p[0] * X.sin(p[1] * x) + p[2] * X.cos(x), lambda p, x: -p[0] / p[1] * X.cos(p[1] * x) + p[2] * X.sin(x), [0.9, 1.4, 0.5], (0.1, 2.0)),
        "recip": (2, lambda p, x: p[1] / (p[0] + x), lambda p, x: p[1] * X.log(p[0] + x), [1.5, 0.8], (0.25, 3.0)),
        "gaussx": (2, lambda p, x: p[0] * x * X.exp(-p[1] * x * x), lambda p, x: -p[0] / (2 * p[1]) * X.exp(-p[1] * x * x), [1.2, 0.7], (0.0, 1.75)),
        "sqrt": (2, lambda p, x: p[0] * X.sqrt(p[1] + x), lambda p, x: p[0] * 2 * (p[1] + x) * X.sqrt(p[1] + x) / 3, [0.6, 1.25], (0.5, 2.5)),
    }


def run(ctx):
    import numpy as np
    pe = common.import_pyerrors()
    rng = ctx.rng
    quick = ctx.tier == "quick"
    rf, qf = root_families(), quad_families()
    ctx.rule = ("find_root on monotone families " + ", ".join(sorted(rf)) + " (scalar and vector d); quad on integrands " + ", ".join(sorted(qf)) + " with closed-form antiderivative, every subset of parameters and limits being "
                "observables; inputs on shared / separate ensembles with partly overlapping configuration lists, several replicas and covariance inputs. Judged in Coq with verified interval arithmetic on symbolic derivatives: "
                "the equation at the central values, the closed form, and the differentiated equation on every configuration and covariance input")
    ctx.trusted += ["scipy fsolve / quad and autograd are oracles judged per case", "Interval library (verified interval arithmetic, 80 bits) evaluated with vm_compute",
                    "the integral is modelled by the antiderivative difference Fa(p, b) - Fa(p, a); dFa/dx = f is checked at a, b and the midpoint with intervals (not proved as an identity)"]
    ctx.assumptions += ["tolerances: equation residual 2^-30 (Newton step relative to 1 + |x|), 2^-24 for integrals (quadrature error), differentiated equation 2^-18 of the sum of absolute terms"]
    ctx.copy_props()
    import itertools
    uniq = itertools.count()

    def make_input(i, centre, base, shared, rel=0.02):
        kind = rng.choice(["mc", "mc", "mc", "cov"])
        if kind == "cov":
            # a mean that is a whole number is passed as an integer literal every other time: cov_Obs(2, ...) is still a real observable
            c_arg = int(centre) if float(centre).is_integer() and centre != 0 and rng.random() < 0.5 else centre
            if isinstance(c_arg, int):
                ctx.count("input given as cov_Obs(<int>, ..)")
            o = pe.cov_Obs(c_arg, (rel * abs(centre) + 0.01) ** 2, "cv%dx%d" % (i, next(uniq)))
            return o
        if centre == 0.0:
            lay = base if shared else obsutil.gen_layout(rng, nmin=8, nmax=24, max_ens=2, ens_names=["R%dx%d" % (i, next(uniq)), "S%dx%d" % (i, next(uniq))])
            o = obsutil.make_obs(pe, rng, lay, "int")
            o = (o - o.value) * (rel / 3.0)
            return o - o.value          # central value exactly 0.0
        lay = base if shared else obsutil.gen_layout(rng, nmin=8, nmax=24, max_ens=2, ens_names=["R%dx%d" % (i, next(uniq)), "S%dx%d" % (i, next(uniq))])
        if shared and rng.random() < 0.4:
            lay = obsutil.derive_layout(rng, base, rng.choice(["subset_prefix", "superset", "subset_stride", "missing_rep"]))
        o = obsutil.make_obs(pe, rng, lay, "int")
        return (o - o.value) * (rel * abs(centre) / 3.0) + centre * (1 + rel * 0.3 * rng.uniform(-1, 1))

    cases = []
    nroot = 24 if quick else 400
    for i in range(nroot):
        name = sorted(rf)[i % len(rf)] if i < len(rf) else rng.choice(sorted(rf))
        nd, fb, inv, centres, guess = rf[name]
        base = obsutil.gen_layout(rng, nmin=8, nmax=24, max_ens=2)
        shared = rng.random() < 0.5
        try:
            with warnings.catch_warnings():
                warnings.simplefilter("ignore")
                d = [make_input(i, c, base, shared) for c in centres]
                fexpr = fb(E.var(0), [E.var(1 + m) for m in range(nd)])
                if nd == 1:
                    func = lambda x, dd, fe=fexpr: fe.fn(lambda n: x if n == 0 else dd)
                    res = pe.roots.find_root(d[0], func, guess=guess)
                else:
                    func = lambda x, dd, fe=fexpr: fe.fn(lambda n: x if n == 0 else dd[n - 1])
                    res = pe.roots.find_root(d, func, guess=guess)
        except Exception as e:
            ctx.skip("root not computed: %s: %s" % (type(e).__name__, str(e)[:60]))
            continue
        if not np.isfinite(float(res.value)):
            ctx.fail("root:%s:not-finite" % name, "find_root (%s) returns a non-finite central value %r for d = %r although the equation has a regular root" % (name, float(res.value), [float(o.value) for o in d]),
                     {"family": name, "d": [float(o.value) for o in d]})
            continue
        closed = "None" if inv is None else "(Some %s)" % inv([E.var(1 + m) for m in range(nd)]).coq
        ic = "(mkICase [%s] 1%%nat 1%%nat [%s] [%s] [%s] [%s] (1 # 2 ^ 18))" % (fexpr.coq, qlit(float(res.value)), "; ".join(qlit(float(o.value)) for o in d), obsutil.obs_term(res), "; ".join(obsutil.obs_term(o) for o in d))
        term = "(mkRCase %s (1 # 2 ^ 30) %s)" % (ic, closed)
        descr = {"kind": "find_root", "family": name, "d": [float(o.value) for o in d], "root": float(res.value), "shared_layout": shared, "names": [list(o.names) for o in d]}
        cases.append({"term": term, "descr": descr, "key": "root:%s" % name, "replay": descr})
        ctx.count("root:" + name)
        ctx.case(("root", name, float(res.value)), nontrivial=True, sample=descr if len(ctx.samples) < 2 else None)

    nquad = 24 if quick else 400
    for i in range(nquad):
        name = sorted(qf)[i % len(qf)] if i < len(qf) else rng.choice(sorted(qf))
        npar, fb, Fb, centres, (a0, b0) = qf[name]
        base = obsutil.gen_layout(rng, nmin=8, nmax=24, max_ens=2)
        shared = rng.random() < 0.5
        # which inputs are observables: every subset over the stream; the first rounds force "all" and "limits only"
        mode = i // len(qf)
        isobs = [rng.random() < 0.6 for _ in range(npar + 2)]
        if mode == 0:
            isobs = [True] * (npar + 2)
        elif mode == 1:
            isobs = [False] * npar + [True, True]
        elif mode == 2:
            isobs = [True] * npar + [False, False]
        if not any(isobs):
            isobs[rng.randrange(npar + 2)] = True
        try:
            with warnings.catch_warnings():
                warnings.simplefilter("ignore")
                vals = list(centres) + ([a0, b0] if rng.random() < 0.6 else [b0, a0])       # ascending and descending limits
                inputs = [make_input(1000 + i, v, base, shared) if ob else float(v) for v, ob in zip(vals, isobs)]
                # the SAME observable object in two slots (a parameter that is also the upper limit, or two equal parameters): its
                # fluctuation then enters through both partial derivatives
                if i % 4 == 3:
                    obs_slots = [k for k in range(npar + 2) if isobs[k] and k != npar]
                    if len(obs_slots) >= 2:
                        k1, k2 = rng.sample(obs_slots, 2)
                        if k2 == npar + 1 or (k1 != npar + 1 and abs(vals[k1] - vals[k2]) < 1e9):
                            inputs[k2] = inputs[k1]
                            ctx.count("quad: one observable object in two slots")
                pvars = [E.var(npar_i) for npar_i in range(npar)]
                fexpr = fb(pvars, E.var(npar))
                func = X.fit_function(fexpr, npar, 1)
                out = pe.integrate.quad(func, inputs[:npar], inputs[npar], inputs[npar + 1], epsabs=1e-13, epsrel=1e-13)
                res = out[0]
        except Exception as e:
            ctx.skip("integral not computed: %s: %s" % (type(e).__name__, str(e)[:60]))
            continue
        if not np.isfinite(float(res.value)):
            ctx.fail("quad:%s:not-finite" % name, "quad (%s) returns a non-finite central value" % name, {"family": name})
            continue
        # variables of the equation G(p, a, b) - u = 0: u = EV 0, the observable inputs follow in the order pobs + bobs; plain numbers are constants
        dobs, slot = [], {}
        for k in list(range(npar)) + [npar, npar + 1]:
            if isobs[k]:
                slot[k] = 1 + len(dobs)
                dobs.append(inputs[k])
        sym = [E.var(slot[k]) if isobs[k] else E.const(inputs[k]) for k in range(npar + 2)]
        G = Fb(sym[:npar], sym[npar + 1]) - Fb(sym[:npar], sym[npar])
        eq = G - E.var(0)
        ic = "(mkICase [%s] 1%%nat 1%%nat [%s] [%s] [%s] [%s] (1 # 2 ^ 18))" % (eq.coq, qlit(float(res.value)), "; ".join(qlit(float(o.value)) for o in dobs), obsutil.obs_term(res), "; ".join(obsutil.obs_term(o) for o in dobs))
        term = "(mkRCase %s (1 # 2 ^ 24) None)" % ic
        descr = {"kind": "quad", "family": name, "observable_inputs": isobs, "inputs": [float(getattr(v, "value", v)) for v in inputs], "integral": float(res.value), "shared_layout": shared}
        cases.append({"term": term, "descr": descr, "key": "quad:%s:%s" % (name, "".join("o" if b else "n" for b in isobs)), "replay": descr})
        ctx.count("quad:" + name)
        ctx.count("quad-observable-inputs:%d" % sum(isobs))
        ctx.case(("quad", name, tuple(isobs), float(res.value)), nontrivial=True, sample=descr if len(ctx.samples) < 4 else None)

    # consistency of the integrand / antiderivative pairs used above (generator sanity, decided in Coq at a, b and the midpoint)
    at = []
    for name in sorted(qf):
        npar, fb, Fb, centres, (a0, b0) = qf[name]
        pv = [E.var(k) for k in range(npar)]
        envs = "[" + "; ".join("[" + "; ".join(qlit(v) for v in list(centres) + [x]) + "]" for x in (a0, b0, 0.5 * (a0 + b0))) + "]"
        at.append("antiderivative_ok %s %s %d%%nat %s (1 # 2 ^ 60)" % (Fb(pv, E.var(npar)).coq, fb(pv, E.var(npar)).coq, npar, envs))
    path = ctx.write("Antiderivatives_C09.v", HDR + "\nTheorem antiderivatives_consistent : forallb (fun b : bool => b) [%s] = true.\nProof. vm_compute. reflexivity. Qed.\n" % ";\n ".join(at))
    ctx.compile_obligation("X:antiderivative-table", path)

    bads = common.judge_cases(ctx, "C09", HDR, "rcase", [c["term"] for c in cases], VERDICTS, shard=4)
    failing = {}
    for v, lst in zip(VERDICTS, bads):
        for k in lst:
            failing.setdefault(k, []).append(v)
    for k, vs in sorted(failing.items()):
        c = cases[k]
        ctx.fail(c["key"], "%s (%s): %s" % (c["descr"]["kind"], c["descr"]["family"], "; ".join(MSG[v] for v in vs)), dict(c["descr"], failed_verdicts=vs))

    # nothing an observable: the scipy result is returned unchanged
    import scipy.integrate
    f = lambda p, x: p[0] * np.exp(-p[1] * x)
    got = pe.integrate.quad(f, [1.3, 0.6], 0.2, 2.5)
    ref = scipy.integrate.quad(lambda x: f([1.3, 0.6], x), 0.2, 2.5)
    if not (isinstance(got, tuple) and got[0] == ref[0] and got[1] == ref[1]):
        ctx.fail("quad:plain", "quad with plain numbers does not return scipy's result", {"got": repr(got), "scipy": repr(ref)})
    ctx.case(("quad-plain", ref[0]), nontrivial=True)


def replay(ctx, doc):
    run(ctx)
