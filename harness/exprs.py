"""One definition, two readings: an expression built with E is at the same time a Coq term of type Base.Expr.expr
and a Python function (autograd-compatible), so the function handed to pyerrors and the expression handed to Coq cannot differ."""
from fractions import Fraction

from harness.common import qlit


def _anp():
    import autograd.numpy as anp
    return anp


class E:
    def __init__(self, coq, fn):
        self.coq, self.fn = coq, fn

    @staticmethod
    def lift(x):
        return x if isinstance(x, E) else E.const(x)

    @staticmethod
    def const(x):
        fx = Fraction(x)
        return E("(EC %s)" % qlit(fx), lambda env, v=float(fx): v)

    @staticmethod
    def var(n):
        return E("(EV %d)" % n, lambda env, n=n: env(n))

    def _bin(self, other, ctor, op):
        o = E.lift(other)
        return E("(%s %s %s)" % (ctor, self.coq, o.coq), lambda env, a=self.fn, b=o.fn: op(a(env), b(env)))

    def __add__(self, o): return self._bin(o, "EAdd", lambda a, b: a + b)
    def __radd__(self, o): return E.lift(o).__add__(self)
    def __sub__(self, o): return self._bin(o, "ESub", lambda a, b: a - b)
    def __rsub__(self, o): return E.lift(o).__sub__(self)
    def __mul__(self, o): return self._bin(o, "EMul", lambda a, b: a * b)
    def __rmul__(self, o): return E.lift(o).__mul__(self)
    def __truediv__(self, o): return self._bin(o, "EDiv", lambda a, b: a / b)
    def __rtruediv__(self, o): return E.lift(o).__truediv__(self)
    def __neg__(self): return E("(ENeg %s)" % self.coq, lambda env, a=self.fn: -a(env))

    def __pow__(self, n):
        n = int(n)
        return E("(EPow %s (%d)%%Z)" % (self.coq, n), lambda env, a=self.fn: a(env) ** n)

    def _un(self, ctor, name):
        return E("(%s %s)" % (ctor, self.coq), lambda env, a=self.fn: getattr(_anp(), name)(a(env)))


def exp(a): return E.lift(a)._un("EExp", "exp")
def log(a): return E.lift(a)._un("ELn", "log")
def sin(a): return E.lift(a)._un("ESin", "sin")
def cos(a): return E.lift(a)._un("ECos", "cos")
def sqrt(a): return E.lift(a)._un("ESqrt", "sqrt")
def cosh(a): return (exp(a) + exp(-E.lift(a))) / 2
def sinh(a): return (exp(a) - exp(-E.lift(a))) / 2
def tanh(a): return 1 - 2 / (exp(2 * E.lift(a)) + 1)


def fit_function(expr, npar, ncomp):
    """Python fit function f(p, x) for pyerrors from an expression in EV 0..npar-1 (parameters) and EV npar+c (abscissa components)."""
    if ncomp == 1:
        return lambda p, x: expr.fn(lambda n: p[n] if n < npar else x)
    return lambda p, x: expr.fn(lambda n: p[n] if n < npar else x[n - npar])


def function_of(expr):
    """Python function of a flat argument list: f(args) with EV n = args[n]."""
    return lambda *args: expr.fn(lambda n: args[n])
