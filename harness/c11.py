"""C11 -- JSON serialisation round-trips losslessly and conforms to the shipped schema (DESIGN §3 C11)."""
import json as stdjson
import math
import os
import sys
import tempfile

from harness import common, obsutil
from harness.common import qlit, coq_string

LEVEL = "proof"

HDR = """From Coq Require Import ZArith QArith List Bool String.
From PV Require Import Base.QAux Obs.Model IO.Json.
From PVG Require Import SchemaGen.
Import ListNotations.
Open Scope Q_scope.
Open Scope string_scope.
Definition doc_ok (c : jcase) (doc : json) : bool := validate 40 shipped_defs shipped_schema doc.
"""


def jterm(x):
    if x is None:
        return "JNull"
    if isinstance(x, bool):
        return "(JBool %s)" % ("true" if x else "false")
    if isinstance(x, (int, float)):
        if isinstance(x, float) and math.isnan(x):
            return "JNaN"
        return "(JNum %s)" % qlit(x)
    if isinstance(x, str):
        return "(JStr %s)" % coq_string(x)
    if isinstance(x, list):
        return "(JArr [%s])" % "; ".join(jterm(e) for e in x)
    if isinstance(x, dict):
        return "(JObj [%s])" % "; ".join("(%s, %s)" % (coq_string(k), jterm(v)) for k, v in x.items())
    raise TypeError(type(x))


def entry_term(o):
    import numpy as np
    if o is None or (hasattr(o, "value") and isinstance(o.value, float) and math.isnan(o.value)):
        return "None"
    return "(Some %s)" % obsutil.obs_term(o)


def same_obs_bits(a, b):
    import numpy as np
    if a is None or b is None:
        return a is None and b is None
    if list(a.names) != list(b.names) or a.value != b.value or a.reweighted != b.reweighted or a.tag != b.tag:
        return False
    for n in a.deltas:
        if not np.array_equal(a.deltas[n], b.deltas[n]) or a.r_values[n] != b.r_values[n] or list(a.idl[n]) != list(b.idl[n]) or type(a.idl[n]) != type(b.idl[n]):
            return False
    for n in a.cov_names:
        if not np.array_equal(a.covobs[n].grad, b.covobs[n].grad) or not np.array_equal(a.covobs[n].cov, b.covobs[n].cov):
            return False
    return True


def flat_entries(x, pe):
    """structure -> flat list of Obs / None, in the order the writer ravel()s it"""
    import numpy as np
    if isinstance(x, pe.Obs):
        return [x]
    if isinstance(x, pe.Corr):
        out = []
        for it in x.content:
            if it is None:
                out += [None] * (x.N * x.N)
            else:
                out += list(np.asarray(it).ravel())
        return out
    if isinstance(x, np.ndarray):
        return list(x.ravel())
    return list(x)


def run(ctx):
    import numpy as np
    pe = common.import_pyerrors()
    import pyerrors.input.json as pj
    rng = ctx.rng
    quick = ctx.tier == "quick"
    sys.path.insert(0, common.VERIF)
    from translate import t_schema
    ctx.rule = ("structures Obs / list / ndarray of rank 1..3 / Corr (N=1 and N=2, paddings, undefined timeslices, prange, string tag) / nested dictionaries with up to 14 leaves; observables on 1..2 ensembles x 1..3 replicas "
                "with range / strided / gapped / irregular configuration lists, covariance inputs of dimension 1..3, derived (non-linear) observables and imported jackknife samples (replica mean != value), magnitudes 2^-40..2^40, "
                "tags of every JSON type; emitted text parsed with the standard json module and compared node by node with the model's encoding, re-import compared with the model's decoding and with the original (spec); "
                "transports: files gz on/off indent 0/1, dict files, Obs.dump / Corr.dump, pickle, pandas csv and sqlite -- bit-exact against the string path")
    ctx.trusted += ["translate/t_schema.py", "rapidjson, gzip, pandas, sqlite3, pickle are transports outside the model", "hand-written model IO/Json.v tied to input/json.py by correspondence"]
    ctx.assumptions += ["tolerance 2^-40 relative for numbers that pass through the text (exact for structure, names, configuration lists)"]

    schema_ok = False
    try:
        txt = t_schema.translate_schema(open(os.path.join(common.REPO, "examples", "json_schema.json")).read())
        p = ctx.write("SchemaGen.v", txt)
        ok, so, se, _ = common.coqc(p, ctx.gendir)
        ctx.obligation("T-schema:SchemaGen.v compiles", ok, se[-600:])
        schema_ok = ok
        if ok:
            ctx.copy_props()
    except t_schema.TranslateError as e:
        ctx.obligation("T-schema:translate json_schema.json", False, str(e))
    try:
        import jsonschema
        shipped = stdjson.load(open(os.path.join(common.REPO, "examples", "json_schema.json")))
    except Exception:
        jsonschema = None

    def mk_group(n, kind=None):
        """n observables sharing chains and covariance inputs (as one structure requires)"""
        lay = obsutil.gen_layout(rng, nmin=5, nmax=12)
        ncov = rng.choice([0, 0, 1])
        dim = rng.choice([1, 2, 3])
        cv = None
        if ncov:
            m = np.array([[float(rng.randint(1, 4)) if a == b else 0.25 for b in range(dim)] for a in range(dim)])
            cv = pe.cov_Obs([float(rng.randint(-3, 3)) + 0.5 for _ in range(dim)], m if dim > 1 else float(m[0, 0]), "cvJ")
            if dim == 1:
                cv = [cv]
        scale = 2.0 ** rng.choice([-40, -10, 0, 0, 0, 10, 40])
        out = []
        src = rng.choice(["primary", "primary", "derived", "jackknife"]) if kind is None else kind
        for k in range(n):
            o = obsutil.make_obs(pe, rng, lay, "int") * scale
            if src == "derived":
                o = np.exp(o * (0.0625 / scale)) + o * o * (1 / scale)
            elif src == "jackknife" and len(lay) == 1:
                nm = sorted(lay)[0]
                single = obsutil.make_obs(pe, rng, lay, "positive")
                jk = (single * single).export_jackknife()
                jk[0] += 0.125         # full-sample estimate differs from the mean of the samples
                o = pe.import_jackknife(jk, nm, idl=[single.idl[nm]])
            if cv is not None:
                o = o * cv[k % dim] + sum(cv[d] * float(d + 1) for d in range(dim))
            if rng.random() < 0.2:
                o.reweighted = True
            out.append(o)
        if any(o.reweighted for o in out):
            for o in out:
                o.reweighted = True
        return out

    TAGS = [None, None, "a tag", "", 0, 3, 2.5, True, False, [1, "x"], {"k": 1}, []]

    cases = []
    docs = []
    ncase = 90 if quick else 1500
    tmpd = tempfile.mkdtemp(prefix="verif_c11_")
    try:
        for i in range(ncase):
            kind = rng.choice(["Obs", "Obs", "List", "Array", "Array", "Corr", "Corr", "CorrN"])
            if i == 0:
                kind = "Corr"        # corpus: the listed finding (Corr tag equal to the string 'None') is exercised on every run
            try:
                if kind == "Obs":
                    g = mk_group(1)
                    g[0].tag = rng.choice(TAGS)
                    struct, typ, layout = g[0], "Obs", "1"
                    tagj = None if g[0].tag is None else [g[0].tag]
                elif kind == "List":
                    n = rng.randint(1, 4)
                    g = mk_group(n)
                    for o in g:
                        o.tag = rng.choice(TAGS)
                    struct, typ, layout = list(g), "List", "%d" % n
                    tagj = None if all(o.tag is None for o in g) else [o.tag for o in g]
                elif kind == "Array":
                    shape = rng.choice([(2,), (3,), (2, 2), (1, 3), (2, 1, 2), (2, 3)])
                    g = mk_group(int(np.prod(shape)))
                    for o in g:
                        o.tag = rng.choice([None, None, "t", 1])
                    struct = np.array(g, dtype=object).reshape(shape)
                    if len(shape) >= 2 and rng.random() < 0.5:
                        # the same logical array held as a transposed (non C-contiguous) view: what is written is the logical order
                        struct = np.array(g, dtype=object).reshape(shape[::-1]).transpose()
                        g = list(struct.ravel())
                        ctx.count("Array given as a transposed view")
                    typ, layout = "Array", str(shape).lstrip("(").rstrip(")").rstrip(",")
                    tagj = None if all(o.tag is None for o in g) else [o.tag for o in g]
                else:
                    T = rng.randint(3, 7)
                    N = 1 if kind == "Corr" else 2
                    g = mk_group(T * N * N)
                    pat = [rng.random() < 0.75 for _ in range(T)]
                    pat[rng.randrange(T)] = True
                    cont = []
                    for t in range(T):
                        if not pat[t]:
                            cont.append(None)
                        elif N == 1:
                            cont.append(g[t])
                        else:
                            cont.append(np.array(g[t * 4:t * 4 + 4], dtype=object).reshape(2, 2))
                    pad = rng.choice([(0, 0), (0, 0), (1, 0), (0, 2)])
                    struct = pe.Corr(cont, padding=list(pad))
                    ctag = rng.choice([None, None, "a corr tag", "None", "with \"quotes\""]) if i > 0 else "None"
                    if ctag is not None:
                        struct.tag = ctag
                    if rng.random() < 0.4:
                        struct.prange = [0, rng.randint(1, struct.T - 1)]
                    typ = "Corr"
                    layout = "%d, %d" % (struct.T, 1) if N == 1 else "%d, %d, %d" % (struct.T, N, N)
                    tagj = {"tag": [str(struct.tag)]}
                    if struct.prange is not None:
                        tagj["prange"] = list(struct.prange)
                entries = flat_entries(struct, pe)
                indent = rng.choice([0, 1])
                text = pj.create_json_string([struct] if kind == "List" else struct, description="verif %d" % i, indent=indent)
                doc = stdjson.loads(text)
                emitted = doc["obsdata"][0]
                back = pj.import_json_string(text, verbose=False)
            except Exception as e:
                ctx.fail("json:raises:" + kind, "writing / reading a %s structure raised %r" % (kind, e), {"kind": kind})
                continue
            imported = flat_entries(back, pe)
            # tags, prange, structure type
            if kind == "Obs" and back.tag != struct.tag:
                ctx.fail("json:tag:%s" % ("falsy" if not struct.tag else "other"), "Obs tag %r comes back as %r" % (struct.tag, back.tag), {"tag": repr(struct.tag), "back": repr(back.tag)})
            if kind in ("List", "Array"):
                t0, t1 = [o.tag for o in entries], [o.tag for o in imported]
                if t0 != t1:
                    ctx.fail("json:taglist", "tags %r of a %s come back as %r" % (t0, kind, t1), {"tags": repr(t0), "back": repr(t1)})
            if kind.startswith("Corr"):
                if back.tag != struct.tag:
                    ctx.fail("json:corr-tag:%s" % ("the-string-None" if struct.tag == "None" else "other"), "Corr tag %r comes back as %r" % (struct.tag, back.tag), {"tag": repr(struct.tag), "back": repr(back.tag)})
                if back.prange != struct.prange or back.T != struct.T or back.N != struct.N or [c is None for c in back.content] != [c is None for c in struct.content]:
                    ctx.fail("json:corr-structure", "Corr T / N / prange / undefined timeslices are not restored", {"prange": struct.prange, "back": back.prange})
            if isinstance(struct, np.ndarray) and back.shape != struct.shape:
                ctx.fail("json:array-shape", "array shape %r comes back as %r" % (struct.shape, back.shape), {})
            # schema validation of the emitted text with the jsonschema package (cross-check of the Coq validator)
            if jsonschema is not None:
                try:
                    jsonschema.validate(doc, shipped)
                except jsonschema.ValidationError as e:
                    ctx.fail("json:schema", "emitted document does not validate against examples/json_schema.json: %s" % str(e)[:200], {"kind": kind})
            scale = max([1e-300] + [abs(float(o.value)) for o in entries if o is not None] + [float(np.max(np.abs(o.deltas[n]))) for o in entries if o is not None for n in o.deltas])
            term = "(mkJCase %s %s %s [%s] %s [%s] tol40 %s)" % (
                coq_string(typ), coq_string(layout), "None" if tagj is None else "(Some %s)" % jterm(tagj), "; ".join(entry_term(o) for o in entries),
                jterm(emitted), "; ".join(entry_term(o) for o in imported), qlit(scale * 2.0 ** -40))
            descr = {"kind": kind, "layout": layout, "n_entries": len(entries), "names": list(entries[[e is not None for e in entries].index(True)].names), "indent": indent}
            cases.append({"term": term, "doc": jterm(doc), "descr": descr, "key": "json:roundtrip:" + kind,
                          "what": "JSON round trip of a %s (layout %s) does not reproduce values / chains / configuration lists / fluctuations / replica means / covariance inputs" % (kind, layout),
                          "replay": {"descr": descr, "text": text[:3000]}})
            ctx.count("kind:" + kind)
            ctx.case((kind, layout, text[200:400]), nontrivial=True, sample=descr if len(ctx.samples) < 3 else None)

            # ---- transports: must give bit-identical objects to the string path
            def cmp_struct(other, how):
                o2 = flat_entries(other, pe)
                if len(o2) != len(imported) or not all(same_obs_bits(a, b) for a, b in zip(imported, o2)):
                    ctx.fail("transport:" + how, "%s returns a structure that differs from the one read from the json string" % how, {"kind": kind, "transport": how})
            try:
                if rng.random() < 0.5:
                    gz = rng.random() < 0.5
                    fn = os.path.join(tmpd, "f%d" % i)
                    pj.dump_to_json(struct, fn, indent=rng.choice([0, 1]), gz=gz)
                    cmp_struct(pj.load_json(fn, verbose=False, gz=gz), "dump_to_json/load_json(gz=%s)" % gz)
                    os.remove(fn + ".json" + (".gz" if gz else ""))
                if kind in ("Obs", "Corr") and rng.random() < 0.4:
                    fn = os.path.join(tmpd, "d%d" % i)
                    struct.dump(fn, datatype="json.gz")
                    cmp_struct(pj.load_json(fn, verbose=False), "%s.dump(json.gz)" % kind)
                    struct.dump(fn, datatype="pickle")
                    pk = pe.load_object(fn + ".p")
                    o2 = flat_entries(pk, pe)
                    if not all(same_obs_bits(a, b) for a, b in zip(entries, o2)):
                        ctx.fail("transport:pickle", "pickling does not reproduce the object bit for bit", {"kind": kind})
                    os.remove(fn + ".json.gz"); os.remove(fn + ".p")
            except Exception as e:
                ctx.fail("transport:raises", "a file transport raised %r" % e, {"kind": kind})
        # nested dictionaries with more than ten leaves
        for i in range(4 if quick else 40):
            leaves = [mk_group(1)[0] for _ in range(rng.randint(11, 14))]
            d = {"a": {"x%d" % k: leaves[k] for k in range(5)}, "b": [leaves[5], {"deep": leaves[6]}], "c": {"k%d" % k: {"l": leaves[k]} for k in range(7, len(leaves))}, "note": "reps7 is not a placeholder here", "n": 3}
            fn = os.path.join(tmpd, "dict%d" % i)
            try:
                pj.dump_dict_to_json(d, fn, gz=rng.random() < 0.5 or True)
                back = pj.load_json_dict(fn, verbose=False)
                flat0 = [d["a"]["x%d" % k] for k in range(5)] + [d["b"][0], d["b"][1]["deep"]] + [d["c"]["k%d" % k]["l"] for k in range(7, len(leaves))]
                flat1 = [back["a"]["x%d" % k] for k in range(5)] + [back["b"][0], back["b"][1]["deep"]] + [back["c"]["k%d" % k]["l"] for k in range(7, len(leaves))]
                for a, b in zip(flat0, flat1):
                    rt = pj.import_json_string(pj.create_json_string(a), verbose=False)
                    if not same_obs_bits(rt, b):
                        ctx.fail("transport:dict", "a leaf of a nested dictionary (%d leaves) comes back as a different observable" % len(leaves), {"leaves": len(leaves)})
                        break
                if back.get("note") != d["note"] or back.get("n") != 3:
                    ctx.fail("transport:dict-plain", "plain entries of a nested dictionary are not restored", {})
            except Exception as e:
                ctx.fail("transport:dict-raises", "dump_dict_to_json / load_json_dict raised %r" % e, {})
            ctx.case(("dict", len(leaves), i), nontrivial=True)
        # pandas transports
        try:
            import pandas as pd
            for i in range(3 if quick else 30):
                g = mk_group(3, kind="primary")
                df = pd.DataFrame({"i": [1, 2, 3], "o": g, "txt": ["a", "b", "c"]})
                for gzp in (False, True):
                    fn = os.path.join(tmpd, "pd%d" % i)
                    pe.input.pandas.dump_df(df, fn, gz=gzp)
                    back = pe.input.pandas.load_df(fn, auto_gamma=False, gz=gzp)
                    ref = [pj.import_json_string(pj.create_json_string(o), verbose=False) for o in g]
                    if not all(same_obs_bits(a, b) for a, b in zip(ref, list(back["o"]))) or list(back["txt"]) != ["a", "b", "c"]:
                        ctx.fail("transport:pandas-csv", "data frame through csv (gz=%s) does not reproduce the observables" % gzp, {})
                    dbf = os.path.join(tmpd, "pd%d.sqlite" % i)
                    pe.input.pandas.to_sql(df, "tab", dbf, if_exists="replace", gz=gzp)
                    back = pe.input.pandas.read_sql("SELECT * FROM tab", dbf, auto_gamma=False)
                    if not all(same_obs_bits(a, b) for a, b in zip(ref, list(back["o"]))):
                        ctx.fail("transport:pandas-sql", "data frame through sqlite (gz=%s) does not reproduce the observables" % gzp, {})
                ctx.case(("pandas", i), nontrivial=False)
        except Exception as e:
            ctx.fail("transport:pandas-raises", "pandas transport raised %r" % e, {})
    finally:
        import shutil
        shutil.rmtree(tmpd, ignore_errors=True)

    if schema_ok:
        files = []
        shard = 10
        verdict_terms = ["(%s, %s)" % (c["term"], c["doc"]) for c in cases]
        hdr = HDR
        bm, bs, bd = common.judge_cases(ctx, "C11", hdr, "jcase * json", verdict_terms,
                                        ["(fun p => jcase_model_ok (fst p))", "(fun p => jcase_spec_ok (fst p))", "(fun p => doc_ok (fst p) (snd p))"], shard=shard)
        for i_ in bd:
            ctx.fail("json:schema-coq", "emitted document of a %s does not validate against the regenerated shipped schema" % cases[i_]["descr"]["kind"], cases[i_]["replay"])
        common.settle(ctx, "json", cases, bm, bs, "model IO/Json.v encodes / decodes exactly like create_json_string / import_json_string")


def replay(ctx, doc):
    run(ctx)
