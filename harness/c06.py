"""C06 -- covariance and correlation matrices are consistent with the individual errors (DESIGN §3 C06)."""
import warnings

from harness import common, obsutil
from harness.common import qlit, coq_string

LEVEL = "proof"

HDR = """From Coq Require Import ZArith QArith List Bool String.
From PV Require Import Base.QAux Obs.Model Obs.Derived Obs.Pairing Obs.Cov.
Import ListNotations.
Open Scope Q_scope.
Open Scope string_scope.
"""


def mat_term(m):
    return "[" + "; ".join("[" + "; ".join(qlit(float(x)) for x in row) + "]" for row in m) + "]"


def run(ctx):
    import numpy as np
    pe = common.import_pyerrors()
    import pyerrors.fits as _pf
    _pf.print = lambda *a, **k: None
    rng = ctx.rng
    quick = ctx.tier == "quick"
    ctx.rule = ("lists of 2..5 analysed observables on 1..2 ensembles x 1..3 replicas with identical / nested / partly overlapping / equal-extent-but-differently-gapped configuration lists, missing replicas, disjoint ensembles, "
                "shared and unshared covariance inputs; random analysis parameters; covariance and correlation; every case also with the list permuted; sort_corr on all key orders of random block structures; "
                "eigenvalue smoothing (trace), Cholesky inverse (product with the covariance), error_band against sqrt(g^T C g)")
    ctx.trusted += ["hand-written model Obs/Cov.v tied to obs.py by correspondence", "square roots in the executable model: integer-sqrt based rational approximation (64 extra bits)",
                    "np.linalg eigh / cholesky / solve_triangular are oracles (their results are judged through the identities they must satisfy)"]
    ctx.assumptions += ["tolerance 2^-30; every observable has a non-zero fluctuation vector on each of its ensembles and a positive error"]
    ctx.copy_props()
    common.tie_pycore(ctx, ["Tie_inter.v", "Tie_reduce.v", "Tie_covdot.v", "Tie_sortcorr.v"])

    cases = []
    ncase = 70 if quick else 1200
    for i in range(ncase):
        base = obsutil.gen_layout(rng, nmin=6, nmax=14, max_ens=2)
        nobs = rng.randint(2, 5)
        obs = []
        cv = pe.cov_Obs([1.5, -0.5], [[0.25, 0.0625], [0.0625, 0.5]], "cvC")
        cva, cvz = pe.cov_Obs(0.7, 0.09, "cvA"), pe.cov_Obs(-1.2, 0.16, "cvZ")      # further external inputs, shared by SOME observables only
        for k in range(nobs):
            mode = rng.choice(["same", "same", "subset_prefix", "subset_random", "superset", "overlap", "missing_rep", "other_ensemble", "twin_gaps"])
            if mode == "twin_gaps":
                lay = {}
                for n_, c in base.items():
                    if len(c) > 6:
                        inner = c[1:-1]
                        drop = set(rng.sample(inner, min(2, len(inner) - 3)))
                        lay[n_] = [x for x in c if x not in drop]
                    else:
                        lay[n_] = list(c)
            else:
                lay = obsutil.derive_layout(rng, base, mode)
            o = obsutil.make_obs(pe, rng, lay, rng.choice(["int", "positive"]))
            r = rng.random()
            if r < 0.2:
                o = o * cv[0]
            elif r < 0.3:
                o = o + cv[1] * 2
            elif r < 0.35:
                o = cv[0] * 3 + cv[1]
            # partially overlapping sets of covariance inputs: names sorting before and after the shared one
            if rng.random() < 0.3:
                o = o + cva * rng.choice([0.5, -1.5])
            if rng.random() < 0.3:
                o = o + cvz * rng.choice([0.25, 2.0])
            if obs and rng.random() < 0.25:
                o = o + obs[0] * 0.5          # strong correlation with the first
            try:
                o.gamma_method(S=rng.choice([0, 1, 2, 3]))
            except ValueError:
                ctx.skip("generator: replicas without a common spacing")
                continue
            obs.append(o)
        nobs = len(obs)
        if nobs < 2:
            continue
        if any(not (o.dvalue > 0) for o in obs):
            ctx.skip("an observable with zero error")
            continue
        with warnings.catch_warnings():
            warnings.simplefilter("ignore")
            try:
                cov = pe.covariance(obs)
                corr = pe.covariance(obs, correlation=True)
                perm = list(range(nobs)); rng.shuffle(perm)
                covp = pe.covariance([obs[p] for p in perm])
            except Exception as e:
                ctx.fail("covariance:raises", "covariance raised %r" % e, {"nobs": nobs})
                continue
        if not (np.all(np.isfinite(cov)) and np.all(np.isfinite(corr))):
            ctx.skip("non-finite covariance (an observable without fluctuations on a shared ensemble)")
            continue
        # permutation equivariance, implementation against implementation
        if not np.allclose(covp, cov[np.ix_(perm, perm)], rtol=1e-12, atol=1e-14 * float(np.max(np.abs(cov)))):
            ctx.fail("covariance:permutation", "permuting the list does not permute the covariance matrix accordingly", {"perm": perm, "cov": cov.tolist(), "cov_permuted_list": covp.tolist()})
        scale = float(np.max(np.abs(cov)))
        term = "(mkCCase [%s] [%s] %s %s tol30 %s)" % ("; ".join(obsutil.obs_term(o) for o in obs), "; ".join(qlit(float(o.dvalue)) for o in obs), mat_term(cov), mat_term(corr), qlit(scale * 2.0 ** -30))
        descr = {"nobs": nobs, "names": [list(o.names) for o in obs], "cov": cov.tolist()}
        cases.append({"term": term, "descr": descr, "key": "covariance:matrix", "what": "covariance / correlation matrix of %d observables differs from the definition on the common configurations (or is not symmetric / unit diagonal / within [-1,1] / diag != err^2)" % nobs,
                      "replay": {"descr": descr, "obs": [obsutil.obs_struct(o) for o in obs], "corr": corr.tolist()}})
        ctx.count("nobs:%d" % nobs)
        ctx.case(("cov", nobs, repr(descr["names"]), round(float(cov[0, 1]), 12)), nontrivial=True, sample={"nobs": nobs, "cov01": float(cov[0, 1]), "corr01": float(corr[0, 1])} if len(ctx.samples) < 3 else None)
    bm, bs = common.judge_cases(ctx, "C06c", HDR, "ccase", [c["term"] for c in cases], ["ccase_model_ok", "ccase_spec_ok"], shard=6)
    common.settle(ctx, "covariance", cases, bm, bs, "model Obs/Cov.v reproduces covariance() on every generated list")

    # ---------------------------------------------------------------- sort_corr: all key orders
    sc = []
    import itertools
    for i in range(12 if quick else 200):
        keys = rng.sample(["a", "b", "c", "zz", "B", "k1"], rng.randint(2, 4))
        sizes = {k: rng.randint(1, 3) for k in keys}
        for kl in (itertools.permutations(keys) if len(keys) <= 3 else [tuple(rng.sample(keys, len(keys))) for _ in range(6)]):
            kl = list(kl)
            n = sum(sizes.values())
            m = np.array([[float(rng.randint(-9, 9)) for _ in range(n)] for _ in range(n)])
            m = m + m.T
            yd_order = list(keys); rng.shuffle(yd_order)
            yd = {k: list(range(sizes[k])) for k in yd_order}         # insertion order differs from kl
            try:
                r = pe.obs.sort_corr(m, kl, yd)
            except Exception as e:
                ctx.fail("sort_corr:raises", "sort_corr raised %r" % e, {"kl": kl})
                continue
            term = "(mkSCase %s [%s] [%s] %s)" % (mat_term(m), "; ".join(coq_string(k) for k in kl), "; ".join("(%s, %d%%nat)" % (coq_string(k), sizes[k]) for k in keys), mat_term(r))
            sc.append({"term": term, "descr": {"kl": kl, "sizes": sizes, "yd_order": yd_order}, "key": "sort_corr", "what": "sort_corr with key order %s is not the permutation to alphabetical order" % kl, "replay": {"kl": kl, "sizes": sizes, "yd_order": yd_order, "m": m.tolist()}})
            ctx.case(("sort_corr", tuple(kl), tuple(sorted(sizes.items()))), nontrivial=(kl != sorted(kl)))
    ctx.count("sort_corr cases", len(sc))
    (bsr,) = common.judge_cases(ctx, "C06s", HDR, "scase", [c["term"] for c in sc], ["scase_ok"], shard=80)
    common.settle(ctx, "sort_corr", sc, [], bsr, "n/a")

    # ---------------------------------------------------------------- helpers built on the covariance: identities judged numerically in Coq
    pairs = []
    for i in range(10 if quick else 120):
        lay = {"ens": list(range(1, 41))}
        n = rng.randint(5, 7)
        base_o = [obsutil.make_obs(pe, rng, lay, "int") for _ in range(n)]
        obs = [base_o[k] + 0.3 * base_o[(k + 1) % n] for k in range(n)]
        [o.gamma_method(S=0) for o in obs]
        cov = pe.covariance(obs)
        corr = pe.covariance(obs, correlation=True)
        # smoothing preserves the trace
        E = rng.randint(3, n - 2) if n - 2 >= 3 else None
        if E is not None:
            with warnings.catch_warnings():
                warnings.simplefilter("ignore")
                sm = pe.covariance(obs, correlation=True, smooth=E)
            pairs.append((float(np.trace(sm)), float(n), "smoothing preserves the trace (E=%d, n=%d)" % (E, n)))
        # Cholesky-based inverse reproduces the inverse covariance: X^T X cov = 1
        inverrdiag = np.diag(1 / np.asarray([o.dvalue for o in obs]))
        X = pe.obs.invert_corr_cov_cholesky(corr, inverrdiag)
        prod = X.T @ X @ cov
        for a in range(n):
            for b in range(n):
                pairs.append((float(prod[a, b]), 1.0 if a == b else 0.0, "Cholesky-based inverse times covariance is the identity"))
        if not np.allclose(X, np.tril(X)):
            ctx.fail("chol-inverse:not-lower-triangular", "invert_corr_cov_cholesky does not return a lower triangular matrix", {})
        # error band = sqrt(g^T C g)
        xs = np.arange(1, n + 1)
        fr = pe.fits.least_squares(xs, obs, lambda p, x: p[0] + p[1] * x, silent=True)
        fr.gamma_method(S=0)
        xband = np.array([0.5, 2.0, 7.5])
        band = pe.fits.error_band(xband, lambda p, x: p[0] + p[1] * x, fr.fit_parameters)
        C = pe.covariance(fr.fit_parameters)
        for xv, bv in zip(xband, band):
            g = np.array([1.0, xv])
            pairs.append((float(bv) ** 2, float(g @ C @ g), "error_band^2 = g^T C g"))
        ctx.case(("helpers", n, E), nontrivial=False)
    txt = HDR + "Definition pairs : list (Q * Q) := [%s].\nEval vm_compute in bad_cases (fun p => closeb (1 # 2 ^ 24) (1 # 2 ^ 24) (fst p) (snd p)) pairs.\n" % "; ".join("(%s, %s)" % (qlit(a), qlit(b)) for a, b, _ in pairs)
    p = ctx.write("HelperPairs.v", txt)
    ok, so, se, _ = common.coqc(p, ctx.gendir)
    if not ok:
        ctx.obligation("X:HelperPairs.v evaluates", False, se[-500:])
    else:
        for i_ in common.parse_z_list(so, 0) or []:
            ctx.fail("helper:" + pairs[i_][2].split(" ")[0], "%s: got %r, expected %r" % (pairs[i_][2], pairs[i_][0], pairs[i_][1]), {"identity": pairs[i_][2], "got": pairs[i_][0], "expected": pairs[i_][1]})
    ctx.count("helper identities", len(pairs))


def replay(ctx, doc):
    run(ctx)
