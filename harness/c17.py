"""C17 -- file readers return exactly the stored numbers at the right configurations (DESIGN §3 C17)."""
import contextlib
import io
import math
import os
import shutil
import tempfile
import warnings

from harness import common, qcdfiles as qf
from harness.common import qlit, zlit

LEVEL = "proof"

HDR = """From Coq Require Import ZArith QArith List Bool String.
From PV Require Import Base.QAux Base.RI Obs.Model IO.Bytes IO.OpenQCD.
Import ListNotations.
Open Scope Q_scope.
(* reweighting factor of one configuration: impl value vs the interval enclosure of prod_j mean_src exp(-x) *)
Definition rcase_ok (c : list (list Q) * Q) : bool := within (rw_factor (fst c)) (snd c) (1 # 2 ^ 40).
"""


@contextlib.contextmanager
def shuffled_listing(rng):
    """the operating system may list a directory in any order: shuffle what os.walk / os.listdir report"""
    real_walk, real_listdir = os.walk, os.listdir

    def walk(*a, **k):
        for dp, dn, fn in real_walk(*a, **k):
            dn2, fn2 = list(dn), list(fn)
            rng.shuffle(dn2); rng.shuffle(fn2)
            dn[:] = dn2
            yield dp, dn, fn2

    def listdir(*a, **k):
        l = list(real_listdir(*a, **k))
        rng.shuffle(l)
        return l
    os.walk, os.listdir = walk, listdir
    try:
        yield
    finally:
        os.walk, os.listdir = real_walk, real_listdir


def quiet(f, *a, **k):
    with contextlib.redirect_stdout(io.StringIO()), warnings.catch_warnings():
        warnings.simplefilter("ignore")
        return f(*a, **k)


def samples_of(o, name):
    return [float(x) for x in (o.deltas[name] + o.r_values[name])]


def run(ctx):
    import numpy as np
    pe = common.import_pyerrors()
    oq = pe.input.openQCD
    rng = ctx.rng
    quick = ctx.tier == "quick"
    ctx.rule = ("synthetic file sets with 1..3 replicas (replica numbers with differing digit counts: r2, r10), 5..14 configurations with pairwise distinct numbers, arbitrary first trajectory and measurement spacing, "
                "1..3 flow times / timeslices / factors / sources / correlators; selections r_start / r_stop / r_step / idl / files / names; directory listings shuffled on every call. ms.dat files (flow, plaquette, Q_top) are "
                "decoded from their BYTES by the Coq model (int32 / binary64 decoding, record loop, reduction, configuration post-processing, selection) and compared with the reader's result replica by replica; rwms 1.4/1.6/2.0 "
                "through an interval enclosure of prod mean exp(-x); sfqcd, ms5_xsf, sfcf (o / c / a) and Hadrons hdf5 against the numbers written (pass-through or timeslice sum)")
    ctx.trusted += ["struct / os / fnmatch / re / h5py are outside the model", "the synthetic files are written by harness/qcdfiles.py following the readers' record layouts",
                    "hand-written byte-level model IO/OpenQCD.v tied to openQCD.py by correspondence (ms.dat family); other formats: numeric comparison with the written numbers"]
    ctx.assumptions += ["tolerance 2^-40 (reductions are sums / means of a few doubles)"]
    ctx.copy_props()

    tmpd = tempfile.mkdtemp(prefix="verif_c17_")
    fcases, rcases, pairs = [], [], []

    def opt(z):
        return "None" if z is None else "(Some %s)" % zlit(z)

    try:
        nset = 24 if quick else 400
        for i in range(nset):
            # ------------------------------------------------------------ ms.dat family
            d = os.path.join(tmpd, "ms%d" % i)
            os.makedirs(d)
            nrep = rng.choice([1, 2, 3])
            repnums = rng.sample([1, 2, 3, 10, 11], nrep)
            nn, tmax, dn, eps = rng.choice([(1, 3, 1, 0.02), (2, 4, 2, 0.01), (2, 2, 1, 0.05)])
            B = tmax * (nn + 1)
            files = {}
            for r in repnums:
                nrec = rng.randint(6, 12)
                step = rng.choice([1, 2, 4])
                first = step * rng.choice([1, 1, 3, 25])
                trajs = [first + step * k for k in range(nrec)]
                blocks = [([float(rng.randint(-900, 900)) / 8 for _ in range(B)], [float(rng.randint(-900, 900)) / 8 for _ in range(B)], [float(rng.randint(-900, 900)) / 16 for _ in range(B)]) for _ in range(nrec)]
                data, H, R = qf.msdat_bytes(dn, nn, tmax, eps, trajs, blocks)
                fname = "tst1r%d.ms.dat" % r
                files[r] = (fname, data, trajs, nrec)
            order = list(files)
            rng.shuffle(order)
            for r in order:
                with open(os.path.join(d, files[r][0]), "wb") as f:
                    f.write(files[r][1])
            kind = rng.choice([0, 1, 2])
            n_sel = rng.randint(0, nn)
            L = 2
            xmin = rng.choice([0, 1]) if tmax > 2 else 0
            use_sel = rng.random() < 0.6
            sorted_reps = sorted(repnums)           # numeric order = the order of the readers' file list
            rstart, rstop, rstep = {}, {}, 1
            kw = {}
            if use_sel:
                for r in sorted_reps:
                    nrec = files[r][3]
                    a = rng.randint(1, 3)
                    b = rng.randint(a + 5, nrec) if a + 5 <= nrec else nrec
                    rstart[r], rstop[r] = a, b
                kw["r_start"] = [rstart[r] for r in sorted_reps]
                kw["r_stop"] = [rstop[r] for r in sorted_reps]
                if kind != 2 and rng.random() < 0.5:
                    rstep = rng.choice([1, 2])
                    kw["r_step"] = rstep
            try:
                with shuffled_listing(rng):
                    if kind == 2:
                        res = quiet(oq.read_qtop, d, "tst1", c=math.sqrt(8 * max(n_sel, 0) * dn * eps) / L, L=L, **kw)
                        obs = res
                    else:
                        E = quiet(oq._extract_flowed_energy_density, d, "tst1", 1, xmin, L, plaquette=(kind == 1), **kw)
                        key = sorted(E)[n_sel]
                        obs = E[key]
                raised = False
            except Exception as e:
                raised, exn = True, repr(e)
            exp_names = ["tst1|r%d" % r for r in sorted_reps]
            if not raised and sorted(obs.names) != sorted(exp_names):
                ctx.fail("msdat:names", "replica names %s, expected %s" % (list(obs.names), exp_names), {"names": list(obs.names), "expected": exp_names})
                continue
            for r in sorted_reps:
                name = "tst1|r%d" % r
                fname, data, trajs, nrec = files[r]
                impl = "None" if raised else "(Some ([%s], [%s]))" % ("; ".join(zlit(int(c)) for c in obs.idl[name]), "; ".join(qlit(x) for x in samples_of(obs, name)))
                term = "(mkFCase [%s]%%Z %d%%nat %d%%nat %s %d%%nat %s %s %s %s tol40 %s)" % (
                    "; ".join("%d" % b for b in data), kind, xmin, zlit(L), n_sel, opt(rstart.get(r)), opt(rstop.get(r)), zlit(rstep), impl, qlit(2.0 ** -40 * 200))
                descr = {"format": ["ms.dat flow", "ms.dat flow plaquette", "ms.dat Q_top"][kind], "replica": name, "trajectories": trajs, "r_start": rstart.get(r), "r_stop": rstop.get(r), "r_step": rstep,
                         "flow_index": n_sel, "impl_idl": None if raised else [int(c) for c in obs.idl[name]]}
                fcases.append({"term": term, "descr": descr, "group": i, "raised": raised, "key": "msdat:%d:%s" % (kind, "raises" if raised else "values-or-configurations"),
                               "what": "%s, replica %s (trajectories %s, r_start=%s r_stop=%s r_step=%s): %s" % (descr["format"], name, trajs[:3] + ["..."], rstart.get(r), rstop.get(r), rstep,
                                                                                                            "the reader raised" if raised else "returned configurations %s / numbers differ from the stored ones" % descr["impl_idl"]),
                               "replay": descr})
                ctx.count("msdat kind %d" % kind); ctx.count("selection:%s" % use_sel)
                ctx.case(("msdat", i, r, kind), nontrivial=True, sample=descr if len(ctx.samples) < 2 else None)

            # ------------------------------------------------------------ rwms 1.4 / 1.6 / 2.0
            d = os.path.join(tmpd, "rw%d" % i)
            os.makedirs(d)
            ver = rng.choice(["1.4", "1.6", "2.0"])
            nrw = rng.choice([1, 2])
            nsrc = [rng.randint(1, 3) for _ in range(nrw)]
            nfct = [1] * nrw if ver == "1.4" else [rng.randint(1, 2) for _ in range(nrw)]
            repnums = rng.sample([1, 2, 10], rng.choice([1, 2]))
            store = {}
            for r in repnums:
                nrec = rng.randint(5, 9)
                cf = list(range(1, nrec + 1))
                dat = [[[[rng.randint(-40, 40) / 64.0 for s in range(nsrc[i_])] for j in range(nfct[i_])] for i_ in range(nrw)] for c in range(nrec)]
                b, H, R = (qf.rwms20_bytes(nfct, nsrc, cf, dat) if ver == "2.0" else qf.rwms16_bytes(nfct, nsrc, cf, dat, version=ver))
                with open(os.path.join(d, "tsu1r%d.ms1.dat" % r), "wb") as f:
                    f.write(b)
                store[r] = (cf, dat)
            try:
                with shuffled_listing(rng):
                    rw = quiet(oq.read_rwms, d, "tsu1", version=ver)
                for r in repnums:
                    name = "tsu1|r%d" % r
                    cf, dat = store[r]
                    for k in range(nrw):
                        if list(rw[k].idl[name]) != cf:
                            ctx.fail("rwms:configurations", "rwms %s: replica %s carries configurations %s, the file holds %s" % (ver, name, list(rw[k].idl[name]), cf), {"version": ver})
                            continue
                        for c_, v in enumerate(samples_of(rw[k], name)):
                            rcases.append({"term": "([%s], %s)" % ("; ".join("[%s]" % "; ".join(qlit(x) for x in dat[c_][k][j]) for j in range(nfct[k])), qlit(v)),
                                           "descr": {"version": ver, "replica": name, "factor": k, "config": cf[c_], "impl": v, "x": dat[c_][k]}, "key": "rwms:value",
                                           "what": "rwms %s, replica %s, factor %d, configuration %d: value %r is not prod_j mean_src exp(-x) of the stored numbers" % (ver, name, k, cf[c_], v),
                                           "replay": {"version": ver, "replica": name, "factor": k, "config": cf[c_], "impl": v, "x": dat[c_][k]}})
                ctx.count("rwms:" + ver)
                ctx.case(("rwms", i, ver, tuple(repnums)), nontrivial=True)
            except Exception as e:
                ctx.fail("rwms:raises", "read_rwms (%s) raised %r on a well-formed file set" % (ver, e), {"version": ver, "replicas": repnums})

            # ------------------------------------------------------------ ms5_xsf (pass-through), with idl selection
            d = os.path.join(tmpd, "x%d" % i)
            os.makedirs(d)
            T = rng.choice([2, 3])
            repnums = rng.sample([1, 2, 10], rng.choice([1, 2]))
            store = {}
            for r in repnums:
                nrec = rng.randint(5, 9)
                first = rng.choice([1, 3, 40])
                cfs = [first + k for k in range(nrec)]
                dat = [([[r * 1e4 + c * 100.0 + k * 10 + x + 0.5 for x in range(2 * T)] for k in range(10)], [[c + 0.5, c + 0.25], [c + 0.75, c + 0.125]]) for c in cfs]
                b, H, R = qf.ms5xsf_bytes(T, cfs, dat)
                with open(os.path.join(d, "xsf1r%d.ms5_xsf_dd.dat" % r), "wb") as f:
                    f.write(b)
                store[r] = (cfs, dat)
            places = ["gS", "gP", "gA", "gV", "gVt", "lA", "lV", "lVt", "lT", "lTt"]
            for corr in places + ["g1", "l1"]:      # every correlator of the record, boundary-to-boundary ones included
                try:
                    with shuffled_listing(rng):
                        res = quiet(oq.read_ms5_xsf, d, "xsf1", "dd", corr)
                    for r in repnums:
                        name = "xsf1|r%d" % r
                        cfs, dat = store[r]
                        if corr in ("g1", "l1"):
                            entries = [res]
                        else:
                            entries = [c_[0] for c_ in res.content]
                        for t, co in enumerate(entries):
                            if list(co.real.idl[name]) != cfs:
                                ctx.fail("ms5_xsf:configurations", "ms5_xsf: replica %s carries configurations %s, the file holds %s" % (name, list(co.real.idl[name]), cfs), {})
                                break
                            for ci, (vr, vi) in enumerate(zip(samples_of(co.real, name), samples_of(co.imag, name))):
                                if corr in ("g1", "l1"):
                                    er, ei = dat[ci][1][("g1", "l1").index(corr)]
                                else:
                                    row = dat[ci][0][places.index(corr)]
                                    er, ei = row[2 * t], row[2 * t + 1]
                                pairs.append((vr, er, "ms5_xsf %s real part, replica %s" % (corr, name)))
                                pairs.append((vi, ei, "ms5_xsf %s imaginary part, replica %s" % (corr, name)))
                    ctx.case(("ms5_xsf", i, corr), nontrivial=True)
                except Exception as e:
                    ctx.fail("ms5_xsf:raises", "read_ms5_xsf raised %r on a well-formed file set" % e, {"corr": corr})

            # ------------------------------------------------------------ sfqcd gfms (timeslice sum at the selected c)
            d = os.path.join(tmpd, "g%d" % i)
            os.makedirs(d)
            ncs, tm = rng.choice([(2, 2), (3, 3)])
            nrec = rng.randint(5, 8)
            step = rng.choice([1, 2])
            trajs = [step * (k + 1) for k in range(nrec)]
            dat = [[[[float(rng.randint(-99, 99)) / 4 for t in range(tm)] for i_ in range(16)] for j in range(ncs + 1)] for rec in range(nrec)]
            b, H, R = qf.sfqcd_gfms_bytes(2, ncs, tm, 4, 1e-6, 0.5, trajs, dat)
            with open(os.path.join(d, "tsg1r1.gfms.dat"), "wb") as f:
                f.write(b)
            jsel = rng.randint(0, ncs)
            zeu = rng.random() < 0.4
            try:
                q = quiet(oq.read_qtop, d, "tsg1", c=0.5 / ncs * jsel, version="sfqcd", Zeuthen_flow=zeu)
                if list(q.idl["tsg1|r1"]) != list(range(1, nrec + 1)):
                    ctx.fail("sfqcd:configurations", "sfqcd gfms: configurations %s, expected 1..%d" % (list(q.idl["tsg1|r1"]), nrec), {})
                else:
                    for rec, v in enumerate(samples_of(q, "tsg1|r1")):
                        pairs.append((v, sum(dat[rec][jsel][0 if zeu else 8]), "sfqcd Q_top (sum over timeslices at the selected c, %s flow)" % ("Zeuthen" if zeu else "Wilson")))
                ctx.case(("sfqcd", i, jsel, zeu), nontrivial=True)
            except Exception as e:
                ctx.fail("sfqcd:raises", "read_qtop(version='sfqcd') raised %r on a well-formed file" % e, {})

        # ---------------------------------------------------------------- sfcf: three layouts, files= selections, shuffled listings
        fn = lambda r, c, nm, wf, t: (1000.0 * r + 10 * c + t + 0.5 * wf + (0.25 if nm == "f_P" else 0) + 1 / 3.0, -(1000.0 * r + 10 * c + t) - 1 / 7.0)
        for i in range(6 if quick else 60):
            reps = rng.sample([0, 1, 2, 10], rng.choice([1, 2, 3]))
            cfgs = {}
            for r in reps:
                start, step, n = rng.choice([1, 2, 5]), rng.choice([1, 2, 3]), rng.randint(5, 9)
                cfgs[r] = [start + step * k for k in range(n)]
            for layout, writer, prefix, version in (("compact", qf.write_sfcf_compact, "data_c", "2.0c"), ("separate", qf.write_sfcf_separate, "test", "2.0"), ("appended", qf.write_sfcf_appended, "data_a", "2.0a")):
                root = os.path.join(tmpd, "sfcf_%s_%d" % (layout, i))
                writer(root, prefix, reps, cfgs, fn, nwf=1 if layout == "appended" else 2)
                name = rng.choice(["f_A", "f_P"])
                wf = 0 if layout == "appended" else rng.choice([0, 1])
                kw = {}
                sel = {r: cfgs[r] for r in reps}
                if layout != "appended" and rng.random() < 0.5:
                    # explicit, shuffled files= selection (a subset of the configurations)
                    fl = []
                    for r in sorted(reps):
                        sub = sorted(rng.sample(cfgs[r], max(5, len(cfgs[r]) - 2)))
                        sel[r] = sub
                        names_ = ["%s_r%d_n%d" % (prefix, r, c) for c in sub] if layout == "compact" else ["cfg%d" % c for c in sub]
                        rng.shuffle(names_)
                        fl.append(names_)
                    kw["files"] = fl
                try:
                    with shuffled_listing(rng):
                        res = quiet(pe.input.sfcf.read_sfcf, root, prefix, name, quarks="lquark lquark", wf=wf, version=version, **kw)
                except Exception as e:
                    ctx.fail("sfcf:raises:" + layout, "read_sfcf (%s layout) raised %r on a well-formed file set" % (layout, e), {"layout": layout, "files": bool(kw)})
                    continue
                for r in reps:
                    rn = "%s_|r%d" % (prefix, r)
                    for t, o in enumerate(res):
                        if rn not in o.idl or list(o.idl[rn]) != sel[r]:
                            ctx.fail("sfcf:configurations:" + layout, "sfcf %s layout%s: replica %s carries configurations %s, requested / stored %s" % (
                                layout, " with files=" if kw else "", rn, list(o.idl.get(rn, [])), sel[r]), {"layout": layout, "files": bool(kw)})
                            break
                        for c, v in zip(sel[r], samples_of(o, rn)):
                            pairs.append((v, fn(r, c, name, wf, t)[0], "sfcf %s layout%s, %s wf=%d t=%d replica %s configuration %d" % (layout, " files=" if kw else "", name, wf, t, rn, c)))
                ctx.count("sfcf:" + layout + (":files" if kw else ""))
                ctx.case(("sfcf", layout, i, bool(kw)), nontrivial=True)

        # ---------------------------------------------------------------- Hadrons hdf5
        try:
            import h5py
            for i in range(4 if quick else 40):
                d = os.path.join(tmpd, "h%d" % i)
                os.makedirs(d)
                T = rng.randint(2, 4)
                start, step, n = rng.choice([1, 7, 100]), rng.choice([1, 2, 10]), rng.randint(7, 10)
                cf = [start + step * k for k in range(n)]
                order = list(cf); rng.shuffle(order)
                vals = {}
                for c in order:
                    with h5py.File(os.path.join(d, "meson.%d.h5" % c), "w") as h:
                        g = h.create_group("meson").create_group("meson_0")
                        arr = np.zeros(T, dtype=np.dtype([("re", "<f8"), ("im", "<f8")]))
                        for t in range(T):
                            arr[t] = (c * 10.0 + t + 0.125, -(c * 10.0 + t) - 0.25)
                        g.create_dataset("corr", data=arr)
                        g.attrs.create("gamma_snk", np.array([b"Gamma5"])); g.attrs.create("gamma_src", np.array([b"Gamma5"]))
                        vals[c] = arr
                idl = None
                want = cf
                if rng.random() < 0.5:
                    want = cf[1:-1]
                    idl = range(want[0], want[-1] + 1, step)
                part = rng.choice(["real", "imag"])
                with shuffled_listing(rng):
                    res = quiet(pe.input.hadrons.read_hd5, os.path.join(d, "meson"), "ensH", "meson", attrs={"gamma_snk": "Gamma5", "gamma_src": "Gamma5"}, idl=idl, part=part)
                for t in range(T):
                    o = res.content[t][0]
                    if list(o.idl["ensH"]) != want:
                        ctx.fail("hadrons:configurations", "Hadrons reader: configurations %s, requested / stored %s" % (list(o.idl["ensH"]), want), {})
                        break
                    for c, v in zip(want, samples_of(o, "ensH")):
                        pairs.append((v, float(vals[c][t]["re" if part == "real" else "im"]), "Hadrons %s part, t=%d, configuration %d" % (part, t, c)))
                ctx.case(("hadrons", i, part, idl is not None), nontrivial=True)
                ctx.count("hadrons")
        except Exception as e:
            ctx.fail("hadrons:raises", "Hadrons reader raised %r on a well-formed file set" % e, {})
    finally:
        shutil.rmtree(tmpd, ignore_errors=True)

    if fcases:
        bs, not_none = common.judge_cases(ctx, "C17f", HDR, "fcase", [c["term"] for c in fcases],
                                          ["(fcase_ok true)", "(fun c => match fcase_model true c with None => true | Some _ => false end)"], shard=6)
        # a call that raised is explained as soon as the model rejects ONE of its replica files (the whole call raises)
        none_idx = set(range(len(fcases))) - set(not_none)
        explained = {c["group"] for k, c in enumerate(fcases) if c["raised"] and k in none_idx}
        bs = [k for k in bs if not (fcases[k]["raised"] and fcases[k]["group"] in explained)]
        common.settle(ctx, "msdat", fcases, [], bs, "n/a")
    if rcases:
        (br,) = common.judge_cases(ctx, "C17r", HDR, "list (list Q) * Q", [c["term"] for c in rcases], ["rcase_ok"], shard=60)
        common.settle(ctx, "rwms", rcases, [], br, "n/a")
    ctx.count("rwms values judged", len(rcases))
    # sharded: a single multi-megabyte list literal overflows coqc's stack
    CH = 4000
    files = []
    for k in range(0, len(pairs), CH):
        txt = HDR + "Definition pairs : list (Q * Q) := [%s].\nEval vm_compute in bad_cases (fun p => closeb tol40 tol40 (fst p) (snd p)) pairs.\n" \
            % "; ".join("(%s, %s)" % (qlit(a_), qlit(b_)) for a_, b_, _ in pairs[k:k + CH])
        files.append((k, ctx.write("Pairs_%d.v" % (k // CH), txt)))
    res = common.coqc_many([f for _, f in files], ctx.gendir)
    all_ok = True
    for (k, f), (ok, so, se, _) in zip(files, res):
        bad = common.parse_z_list(so, 0) if ok else None
        if not ok or bad is None:
            all_ok = False
            ctx.obligation("X:%s evaluates" % os.path.basename(f), False, (se or so)[-500:])
            continue
        for i_ in bad:
            pr = pairs[k + i_]
            ctx.fail("value:" + pr[2].split(",")[0].split(" ")[0], "%s: the reader returns %r, the file holds %r" % (pr[2], pr[0], pr[1]), {"what": pr[2], "got": pr[0], "stored": pr[1]})
    if all_ok:
        ctx.obligation("X:Pairs evaluate (%d shards)" % len(files), True)
    ctx.count("pass-through numbers compared", len(pairs))


def replay(ctx, doc):
    run(ctx)
