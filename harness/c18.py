"""C18 -- truncated measurement files never produce wrong numbers (DESIGN §3 C18)."""
import contextlib
import io
import math
import os
import shutil
import sys
import tempfile
import warnings

from harness import common, obsutil, qcdfiles as qf
from harness.common import qlit

LEVEL = "proof"

HDR = """From Coq Require Import ZArith QArith List Bool String.
From PV Require Import Base.QAux IO.Bytes.
Import ListNotations.
(* a file of [len] bytes after the header, record size R, every read checked (theta = R): what may the reader do? *)
Record tcase := mkTCase { t_R : nat; t_body : nat; t_stop_on_short_header : bool; t_impl : option nat }.       (* impl: Some n = returned n configurations, None = raised *)
(* the openQCD loops stop silently when fewer than 4 bytes of a next record are left; read_ms5_xsf reads whole chunks and stops
   only on an empty read (1..3 stray bytes raise) *)
Definition model_count (c : tcase) : option nat :=
  if negb (t_stop_on_short_header c) && Nat.ltb 0 (Nat.modulo (t_body c) (t_R c)) then None else
  match parse (t_R c) (t_R c) (S (t_body c)) (repeat 0%Z (t_body c)) with Raises => None | Records l => Some (List.length l) end.
(* model verdict: same outcome, except that an observable needs at least five configurations (Obs.__init__) *)
Definition tcase_model_ok (c : tcase) : bool :=
  match model_count c, t_impl c with
  | None, None => true
  | Some n, Some m => Nat.eqb n m
  | Some n, None => Nat.ltb n 5
  | None, Some _ => false
  end.
(* SPEC: raise, or exactly the complete records that precede the cut (none assembled from a partial record, none dropped) *)
Definition tcase_spec_ok (c : tcase) : bool :=
  match t_impl c with None => true | Some m => Nat.eqb m (t_body c / t_R c) end.
"""


def quiet(f, *a, **k):
    with contextlib.redirect_stdout(io.StringIO()), warnings.catch_warnings():
        warnings.simplefilter("ignore")
        return f(*a, **k)


def obs_sig(o, pe):
    """bit-exact signature of a reader result (Obs, list of Obs, dict of Obs, Corr, CObs)"""
    import numpy as np
    if isinstance(o, pe.Obs):
        return ("O", tuple((n, tuple(int(c) for c in o.idl[n]), (o.deltas[n] + o.r_values[n]).tobytes()) for n in sorted(o.deltas)))
    if isinstance(o, pe.CObs):
        return ("C", obs_sig(o.real, pe), obs_sig(o.imag, pe))
    if isinstance(o, pe.Corr):
        return ("Corr", tuple(None if c is None else tuple(obs_sig(x, pe) for x in np.asarray(c).ravel()) for c in o.content))
    if isinstance(o, dict):
        return ("D", tuple((repr(k), obs_sig(v, pe)) for k, v in sorted(o.items(), key=lambda kv: repr(kv[0]))))
    if isinstance(o, (list, tuple)):
        return ("L", tuple(obs_sig(x, pe) for x in o))
    return ("?", repr(o))


def n_configs(o, pe):
    if isinstance(o, pe.Obs):
        return len(next(iter(o.idl.values())))
    if isinstance(o, pe.CObs):
        return n_configs(o.real, pe)
    if isinstance(o, pe.Corr):
        return n_configs(next(c for c in o.content if c is not None)[0], pe)
    if isinstance(o, dict):
        return n_configs(next(iter(o.values())), pe)
    return n_configs(o[0], pe)


def run(ctx):
    import numpy as np
    pe = common.import_pyerrors()
    oq = pe.input.openQCD
    rng = ctx.rng
    quick = ctx.tier == "quick"
    sys.path.insert(0, common.VERIF)
    from translate import t_reads
    ctx.rule = ("T-reads classifies the last fp.read of every record loop of openQCD.py (checked / unchecked); fault enumeration: synthetic files of the formats ms.dat (flow, flow plaquette, Q_top), sfqcd gfms, "
                "rwms 1.4 / 1.6 / 2.0, ms5_xsf, cut at EVERY byte offset (quick: every offset of one file per format with 5..7 records; thorough: several shapes), and sfcf compact / separate / appended files cut at every line "
                "and at every byte of the last data lines; the reader must raise or return exactly the result of reading the file cut at the last complete record (bit-exact); exported json.gz / xml.gz / csv.gz archives cut "
                "at every offset must be rejected")
    ctx.trusted += ["translate/t_reads.py (syntactic: which fp.read results are unpacked or length-tested)", "gzip / rapidjson / lxml / pandas reject truncated archives: runtime behaviour of third-party code, enumerated but not modelled",
                    "the reference result for 'the complete records before the cut' is produced by the same reader on a file cut at a record boundary"]

    # ---------------------------------------------------------------- (T)
    try:
        txt, rows = t_reads.translate_reads(open(os.path.join(common.REPO, "pyerrors", "input", "openQCD.py")).read())
        p = ctx.write("ReadsGen.v", txt)
        ok, so, se, _ = common.coqc(p, ctx.gendir)
        ctx.obligation("T-reads:ReadsGen.v compiles", ok, se[-500:])
        if ok:
            ctx.copy_props()
        ctx.extra["record_loops"] = {n: b for n, b in rows}
    except t_reads.TranslateError as e:
        ctx.obligation("T-reads:translate openQCD.py", False, str(e))

    tmpd = tempfile.mkdtemp(prefix="verif_c18_")
    cases = []

    def enumerate_cuts(tag, fname, data, H, R, reader, stride=1):
        """cut `data` at every offset, call reader(), compare with the reference for the complete records"""
        path = os.path.join(tmpd, tag)
        os.makedirs(path, exist_ok=True)
        full = os.path.join(path, fname)
        refs = {}
        nrec = (len(data) - H) // R

        def ref(n):
            if n not in refs:
                with open(full, "wb") as f:
                    f.write(data[:H + n * R])
                try:
                    refs[n] = obs_sig(quiet(reader, path), pe)
                except Exception:
                    refs[n] = None
            return refs[n]
        for k in range(0, len(data), stride):
            with open(full, "wb") as f:
                f.write(data[:k])
            try:
                r = quiet(reader, path)
                n = n_configs(r, pe)
                sig = obs_sig(r, pe)
            except Exception:
                r, n, sig = None, None, None
            body = max(0, k - H)
            if k < H and r is not None:
                ctx.fail("truncation:%s:header" % tag, "%s: a file cut inside its header (offset %d of %d) is read without an exception" % (tag, k, len(data)), {"format": tag, "offset": k, "size": len(data)})
                continue
            if k < H:
                ctx.case((tag, "header", k), nontrivial=False)
                continue
            complete = body // R
            if r is not None and sig != ref(min(n, nrec)):
                kind = "partial-record-accepted" if n > complete else "wrong-numbers"
                ctx.fail("truncation:%s:%s" % (tag, kind), "%s cut at offset %d (header %d, record size %d, %d complete records, %d bytes into the next): the reader returns %d configurations %s" % (
                    tag, k, H, R, complete, body - complete * R, n, "whose numbers differ from the complete records" if n <= complete else "including a record that is not completely in the file"),
                    {"format": tag, "offset": k, "header": H, "record_size": R, "returned": n, "complete": complete})
                continue
            cases.append({"term": "(mkTCase %d%%nat %d%%nat %s %s)" % (R, body, "false" if tag == "ms5_xsf" else "true", "None" if n is None else "(Some %d%%nat)" % n),
                          "descr": {"format": tag, "offset": k, "header": H, "record_size": R, "returned": n, "complete": complete}, "key": "truncation:%s:%s" % (tag, "partial-record-accepted" if (n or 0) > complete else "dropped-or-miscounted"),
                          "what": "%s cut at offset %d: the reader returns %s configurations, %d complete records precede the cut" % (tag, k, n, complete),
                          "replay": {"format": tag, "offset": k, "header": H, "record_size": R, "returned": n, "complete": complete}})
            ctx.count("cuts:" + tag)
            ctx.case((tag, k), nontrivial=(body % R != 0))

    try:
        shapes = [0] if quick else [0, 1, 2]
        for sh in shapes:
            nrec = rng.randint(5, 7)
            # ---- ms.dat
            nn, tmax, dn, eps = rng.choice([(1, 3, 1, 0.02), (2, 2, 2, 0.01)])
            B = tmax * (nn + 1)
            trajs = [4 * (i + 1) for i in range(nrec)]
            blocks = [([float(100 * i + k) for k in range(B)], [200.0 * i + k + 0.5 for k in range(B)], [300.0 * i + k + 0.25 for k in range(B)]) for i in range(nrec)]
            data, H, R = qf.msdat_bytes(dn, nn, tmax, eps, trajs, blocks)
            enumerate_cuts("ms.dat-flow", "tstr1.ms.dat", data, H, R, lambda p: oq._extract_flowed_energy_density(p, "tst", 1, 0 if tmax < 3 else 1, 2))
            enumerate_cuts("ms.dat-flow-plaquette", "tstr1.ms.dat", data, H, R, lambda p: oq._extract_flowed_energy_density(p, "tst", 1, 0 if tmax < 3 else 1, 2, plaquette=True))
            enumerate_cuts("ms.dat-qtop", "tstr1.ms.dat", data, H, R, lambda p: oq.read_qtop(p, "tst", c=math.sqrt(8 * 1 * dn * eps) / 2, L=2))
            # ---- sfqcd gfms
            ncs, tm = 2, 2
            dat = [[[[10.0 * rec + j + 0.1 * i + 0.01 * t for t in range(tm)] for i in range(16)] for j in range(ncs + 1)] for rec in range(nrec)]
            data, H, R = qf.sfqcd_gfms_bytes(2, ncs, tm, 4, 1e-6, 0.5, [2 * (i + 1) for i in range(nrec)], dat)
            enumerate_cuts("sfqcd-gfms", "tstr1.gfms.dat", data, H, R, lambda p: oq.read_qtop(p, "tst", c=0.25, version="sfqcd"))
            # ---- rwms
            nfct, nsrc = rng.choice([([1], [2]), ([2], [2]), ([1, 2], [1, 2])])
            cf = list(range(1, nrec + 1))
            d_ = [[[[0.1 * c + 0.01 * i + 0.001 * j + 0.0001 * s for s in range(nsrc[i])] for j in range(nfct[i])] for i in range(len(nsrc))] for c in range(nrec)]
            data, H, R = qf.rwms16_bytes(nfct, nsrc, cf, d_)
            enumerate_cuts("rwms-1.6", "tsu1r1.ms1.dat", data, H, R, lambda p: oq.read_rwms(p, "tsu1", version="1.6"))
            data, H, R = qf.rwms16_bytes([1] * len(nsrc), nsrc, cf, [[[c_[i][0]] for i in range(len(nsrc))] for c_ in d_], version="1.4")
            enumerate_cuts("rwms-1.4", "tsu1r1.ms1.dat", data, H, R, lambda p: oq.read_rwms(p, "tsu1", version="1.4"))
            data, H, R = qf.rwms20_bytes(nfct, nsrc, cf, d_)
            enumerate_cuts("rwms-2.0", "tsu1r1.ms1.dat", data, H, R, lambda p: oq.read_rwms(p, "tsu1", version="2.0"))
            # ---- ms5_xsf
            T = 2
            cfs = list(range(3, 3 + nrec))
            d5 = [([[c * 100.0 + k * 10 + x for x in range(2 * T)] for k in range(10)], [[c + 0.5, c + 0.25], [c + 0.75, c + 0.125]]) for c in cfs]
            data, H, R = qf.ms5xsf_bytes(T, cfs, d5)
            enumerate_cuts("ms5_xsf", "xsfr2.ms5_xsf_dd.dat", data, H, R, lambda p: oq.read_ms5_xsf(p, "xsf", "dd", "gA"), stride=1 if not quick else 3)

        bm, bs = common.judge_cases(ctx, "C18", HDR, "tcase", [c["term"] for c in cases], ["tcase_model_ok", "tcase_spec_ok"], shard=4000)
        common.settle(ctx, "truncation", cases, bm, bs, "the record-loop model (every read checked) predicts what each reader does on every truncated file")

        # ---------------------------------------------------------------- sfcf text files: line-wise and byte-wise cuts
        fn = lambda r, c, nm, wf, t: (1000.0 * r + 10 * c + t + 0.5 * wf + (0.25 if nm == "f_P" else 0) + 1 / 3.0, -(1000.0 * r + 10 * c + t) - 1 / 7.0)
        cfgs = {0: [1, 2, 3, 4, 5], 1: [2, 4, 6, 8, 10]}
        for layout, writer, prefix, version, victim in (
                ("compact", qf.write_sfcf_compact, "data_c", "2.0c", lambda root: os.path.join(root, "data_c_r1", "data_c_r1_n6")),
                ("separate", qf.write_sfcf_separate, "test", "2.0", lambda root: os.path.join(root, "test_r1", "cfg6", "f_A")),
                ("appended", qf.write_sfcf_appended, "data_a", "2.0a", lambda root: os.path.join(root, "data_a_r1.f_A"))):
            root = os.path.join(tmpd, "sfcf_" + layout)
            writer(root, prefix, [0, 1], cfgs, fn, nwf=1 if layout == "appended" else 2)
            reader = lambda: pe.input.sfcf.read_sfcf(root, prefix, "f_A", quarks="lquark lquark", wf=0, version=version)
            full_sig = obs_sig(quiet(reader), pe)
            vf = victim(root)
            text = open(vf).read()
            lines = text.splitlines(keepends=True)
            # offsets: every line boundary, and every byte inside the data lines of the f_A / wf 0 block (and of the last chunk for appended)
            offs = set()
            pos = 0
            for ln in lines:
                offs.add(pos)
                if ln.strip() and ln.lstrip()[0].isdigit() and ("e+" in ln or "e-" in ln):
                    offs.update(range(pos, pos + len(ln)))
                pos += len(ln)
            offs = sorted(o for o in offs if o < len(text))
            if quick:
                offs = offs[::2]
            for k in offs:
                with open(vf, "w") as f:
                    f.write(text[:k])
                try:
                    sig = obs_sig(quiet(reader), pe)
                except Exception:
                    sig = None
                if sig is not None and sig != full_sig:
                    # appended layout: complete chunks before the cut may legitimately be returned
                    ok_prefix = False
                    if layout == "appended":
                        nchunk = text[:k].count("[run]")
                        for m in range(2, len(cfgs[1]) + 1):
                            chunk_end = 0
                            idxs = [i for i in range(len(text)) if text.startswith("[run]", i)]
                            cut_at = idxs[m] if m < len(idxs) else len(text)
                            with open(vf, "w") as f:
                                f.write(text[:cut_at])
                            try:
                                if obs_sig(quiet(reader), pe) == sig and cut_at <= k:
                                    ok_prefix = True
                                    break
                            except Exception:
                                pass
                    if not ok_prefix:
                        ctx.fail("truncation:sfcf-%s" % layout, "sfcf %s layout: a file cut at byte %d of %d is read without an exception and yields numbers that are not those of the complete data" % (layout, k, len(text)),
                                 {"layout": layout, "offset": k, "size": len(text), "tail": text[max(0, k - 40):k]})
                ctx.count("cuts:sfcf-" + layout)
                ctx.case(("sfcf", layout, k), nontrivial=True)
            with open(vf, "w") as f:
                f.write(text)

        # ---------------------------------------------------------------- archives: must be rejected
        lay = {"ens|r1": list(range(1, 9))}
        o1 = obsutil.make_obs(pe, rng, lay, "int")
        o2 = obsutil.make_obs(pe, rng, lay, "positive")
        arch = []
        fnj = os.path.join(tmpd, "a_json")
        pe.input.json.dump_to_json([o1, [o1, o2]], fnj)
        arch.append(("json.gz", fnj + ".json.gz", lambda f: pe.input.json.load_json(f, verbose=False)))
        fnx = os.path.join(tmpd, "a_dobs")
        pe.input.dobs.write_dobs([o1, o2], fnx, "verif", who="verif")
        arch.append(("xml.gz", fnx + ".xml.gz", lambda f: pe.input.dobs.read_dobs(f)))
        try:
            import pandas as pd
            df = pd.DataFrame({"i": [1, 2], "o": [o1, o2]})
            fnc = os.path.join(tmpd, "a_df")
            pe.input.pandas.dump_df(df, fnc, gz=True)
            arch.append(("csv.gz", fnc + ".csv.gz", lambda f: pe.input.pandas.load_df(f[:-7], gz=True)))
        except Exception as e:
            ctx.skip("pandas archive could not be written: %s" % type(e).__name__)
        for kind, path, loader in arch:
            blob = open(path, "rb").read()
            offs = range(0, len(blob), 1 if not quick else max(1, len(blob) // 160))
            for k in offs:
                with open(path, "wb") as f:
                    f.write(blob[:k])
                try:
                    quiet(loader, path)
                    ctx.fail("truncation:archive:" + kind, "a %s archive cut at byte %d of %d is loaded without an exception" % (kind, k, len(blob)), {"archive": kind, "offset": k, "size": len(blob)})
                except Exception:
                    pass
                ctx.count("cuts:" + kind)
                ctx.case(("archive", kind, k), nontrivial=False)
            with open(path, "wb") as f:
                f.write(blob)
    finally:
        shutil.rmtree(tmpd, ignore_errors=True)


def replay(ctx, doc):
    run(ctx)
