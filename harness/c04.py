"""C04 -- every observable produced by the library is structurally well-formed (DESIGN §3 C04)."""
import math
import os
import sys
import tempfile
import warnings

from harness import common, obsutil
from harness.common import coq_string, zlit

LEVEL = "proof"

HDR = """From Coq Require Import ZArith QArith List Bool String.
From PV Require Import Base.QAux Obs.Model Obs.WF.
Import ListNotations.
Open Scope string_scope.
"""


def ostruct_term(o):
    import numpy as np
    chains = []
    for n in [x for x in o.names if x not in o.cov_names]:
        chains.append("(mkChain %s %s %d%%nat %d%%nat)" % (coq_string(n), obsutil.idl_term(o.idl[n]), len(o.deltas[n]), int(o.shape[n])))
    v = o.value
    real = isinstance(v, (float, np.floating)) and not isinstance(v, (complex, np.complexfloating))
    return "(mkOS [%s] [%s] [%s] %s %s [%s])" % (
        "; ".join(coq_string(n) for n in o.names), "; ".join(coq_string(n) for n in o.cov_names), "; ".join(chains), zlit(int(o.N)),
        "true" if real else "false", "; ".join(coq_string(n) for n in o.e_names))


def struct_json(o):
    return {"names": list(o.names), "cov_names": list(o.cov_names), "idl": {n: (repr(o.idl[n]) if isinstance(o.idl[n], range) else [int(x) for x in o.idl[n]]) for n in o.names if n not in o.cov_names},
            "ndeltas": {n: len(o.deltas[n]) for n in o.names if n not in o.cov_names}, "shape": {n: int(o.shape[n]) for n in o.names if n not in o.cov_names}, "N": int(o.N), "value_type": type(o.value).__name__, "value": repr(o.value)}


def run(ctx):
    import numpy as np
    pe = common.import_pyerrors()
    import pyerrors.fits as _pf
    _pf.print = lambda *a, **k: None
    rng = ctx.rng
    quick = ctx.tier == "quick"
    sys.path.insert(0, common.VERIF)
    from translate import t_dispatch
    ctx.rule = ("(a) constructor requests: valid ones on the layout grammar with idl given as range / list / ndarray, and a malformed stream (duplicate names, non-string names, unsorted / duplicate configuration "
                "numbers, length mismatch, fewer than five samples, several ensembles incl. prefix-related labels such as 'A' / 'AB', bad idl type); (b) random sequences of public operations over a pool of objects "
                "(arithmetic in both orders with Obs / CObs / int / float / complex incl. complex numbers with zero imaginary part, ndarray; 15 functions; reweight, correlate, merge_obs, cov_Obs, json / dobs / pickle / "
                "jackknife round trips, least_squares and find_root results): the structure of EVERY result is extracted and judged by wfb inside Coq; distinct by structure")
    ctx.trusted += ["translate/t_dispatch.py", "hand-written constructor model Obs/WF.v tied to Obs.__init__ by correspondence"]

    # ---------------------------------------------------------------- (T) dispatch table
    src = open(os.path.join(common.REPO, "pyerrors", "obs.py")).read()
    try:
        txt, table = t_dispatch.translate_dispatch(src)
        p = ctx.write("DispatchGen.v", txt)
        ok, so, se, _ = common.coqc(p, ctx.gendir)
        ctx.obligation("T-dispatch:DispatchGen.v compiles", ok, se[-600:])
        if ok:
            ctx.copy_props()
    except t_dispatch.TranslateError as e:
        ctx.obligation("T-dispatch:translate obs.py", False, str(e))
    # ---------------------------------------------------------------- (T) the list-type idl branch of Obs.__init__ = constructor model
    common.tie_pycore(ctx, ["Tie_init.v"])

    # ---------------------------------------------------------------- (X1) constructor stream
    ic = []
    nreq = 250 if quick else 4000
    for i in range(nreq):
        ens = rng.choice(["A", "ens", "B7"])
        nrep = rng.choice([1, 1, 2, 3])
        names = [ens] if nrep == 1 and rng.random() < 0.5 else ["%s|r%d" % (ens, k + 1) for k in range(nrep)]
        rng.shuffle(names)
        cf = [obsutil.gen_cfgs(rng, rng.randint(5, 12), rng.choice(obsutil.IDL_KINDS)) for _ in names]
        lens = [len(c) for c in cf]
        use_idl = rng.random() < 0.8
        forms = [rng.choice(["list", "range", "array"]) for _ in names]
        kind = rng.choice(["valid", "valid", "valid", "dup-names", "non-string", "unsorted", "dup-cfg", "len-mismatch", "too-short", "multi-ens", "prefix-ens", "names-len", "bad-idl-type", "idl-len"])
        malformed = kind != "valid"
        nm = list(names)
        if kind == "dup-names":
            if len(nm) < 2:
                nm = nm + nm
                cf, lens, forms = cf + cf, lens + lens, forms + forms
            else:
                nm[1] = nm[0]
        elif kind == "non-string":
            nm[rng.randrange(len(nm))] = rng.choice([3, 2.5, None, ("a",)])
        elif kind == "unsorted":
            k = rng.randrange(len(cf))
            c = list(cf[k]); j = rng.randrange(len(c) - 1); c[j], c[j + 1] = c[j + 1], c[j]; cf[k] = c; forms[k] = rng.choice(["list", "array"]); use_idl = True
        elif kind == "dup-cfg":
            k = rng.randrange(len(cf))
            c = list(cf[k]); j = rng.randrange(len(c) - 1); c[j + 1] = c[j]; cf[k] = c; forms[k] = rng.choice(["list", "array"]); use_idl = True
        elif kind == "len-mismatch":
            k = rng.randrange(len(cf)); lens[k] = lens[k] + rng.choice([-1, 1, 2]); use_idl = True
            if lens[k] <= 4:
                lens[k] = len(cf[k]) + 1
        elif kind == "too-short":
            k = rng.randrange(len(cf)); n = rng.randint(1, 4); cf[k] = cf[k][:n]; lens[k] = n
        elif kind == "multi-ens":
            if len(nm) < 2:
                nm = [nm[0], "other|r1"]; cf, lens, forms = cf + [cf[0]], lens + [lens[0]], forms + [forms[0]]
            else:
                nm[1] = "q" + nm[1]
        elif kind == "prefix-ens":
            base = ens
            nm = [base + "|r1", base + "B|r1"] if rng.random() < 0.5 else [base, base + "b"]
            if rng.random() < 0.5:
                nm.reverse()
            cf, lens, forms = (cf + cf)[:2], (lens + lens)[:2], (forms + forms)[:2]
        elif kind == "names-len":
            nm = nm + ["%s|extra" % ens]
        elif kind == "idl-len":
            use_idl = True
        bad_type_at = rng.randrange(len(cf)) if kind == "bad-idl-type" else -1
        if bad_type_at >= 0:
            use_idl = True
        samples = [np.array(obsutil.gen_data(rng, n, "int")) for n in lens]
        idl_py, idl_t = None, "None"
        if use_idl:
            idl_py, ts = [], []
            for k, c in enumerate(cf):
                if k == bad_type_at:
                    idl_py.append(tuple(c)); ts.append("ABad"); continue
                f = forms[k]
                if f == "range" and obsutil.is_uniform(c) and kind not in ("unsorted", "dup-cfg"):
                    idl_py.append(range(c[0], c[-1] + 1, c[1] - c[0])); ts.append("(ARange (mkIdl true [%s]))" % "; ".join(zlit(x) for x in c))
                elif f == "array":
                    idl_py.append(np.array(c)); ts.append("(AList [%s])" % "; ".join(zlit(x) for x in c))
                else:
                    idl_py.append(list(c)); ts.append("(AList [%s])" % "; ".join(zlit(x) for x in c))
            if kind == "idl-len":
                idl_py = idl_py + [list(cf[0])]; ts = ts + ["(AList [%s])" % "; ".join(zlit(x) for x in cf[0])]
            idl_t = "(Some [%s])" % "; ".join(ts)
        try:
            o = pe.Obs(samples, nm, idl=idl_py) if idl_py is not None else pe.Obs(samples, nm)
            impl_t = "(Some %s)" % ostruct_term(o)
            sj = struct_json(o)
        except Exception as e:
            impl_t, sj = "None", "rejected: %s" % type(e).__name__
        names_t = "[%s]" % "; ".join("(NStr %s)" % coq_string(x) if isinstance(x, str) else "NOther" for x in nm)
        term = "(mkIC [%s] %s %s %s %s)" % ("; ".join("%d%%nat" % n for n in lens), names_t, idl_t, "true" if malformed else "false", impl_t)
        descr = {"kind": kind, "names": [repr(x) for x in nm], "lens": lens, "idl": None if idl_py is None else [repr(x)[:80] for x in idl_py], "impl": sj}
        ic.append({"term": term, "descr": descr, "key": "constructor:%s:%s" % (kind, "accepted" if impl_t != "None" else "rejected"),
                   "what": "Obs(...) with a %s request: %s" % (kind, "accepted although malformed / result not well-formed" if impl_t != "None" else "rejected"), "replay": descr})
        ctx.count("ctor:" + kind)
        ctx.case(("ctor", kind, tuple(repr(x) for x in nm), tuple(lens), idl_t[:200]), nontrivial=True)
    bm, bs = common.judge_cases(ctx, "C04i", HDR, "icase", [c["term"] for c in ic], ["icase_model_ok", "icase_spec_ok"], shard=80)
    common.settle(ctx, "constructor", ic, bm, bs, "constructor model Obs/WF.v accepts / rejects / builds exactly like Obs.__init__")

    # ---------------------------------------------------------------- (X2) operation sequences: wfb of every produced object
    produced = []      # (term, descr)

    def check_obj(x, how):
        if isinstance(x, pe.Obs):
            produced.append({"term": ostruct_term(x), "descr": {"produced_by": how, "struct": struct_json(x)}, "key": "wf:" + how.split("(")[0].split(" ")[0],
                             "what": "object produced by %s is not a well-formed observable" % how, "replay": {"produced_by": how, "struct": struct_json(x)}})
            ctx.count("produced:" + how.split(" ")[0].split("(")[0])
            return True
        if isinstance(x, pe.CObs):
            ok = True
            for part, nm_ in ((x.real, "real"), (x.imag, "imag")):
                if isinstance(part, pe.Obs):
                    check_obj(part, how + " [." + nm_ + "]")
                elif isinstance(part, (int, float, np.integer, np.floating)) and not isinstance(part, bool):
                    pass
                else:
                    ctx.fail("closure:cobs-part:" + how.split(" ")[0], "%s returned a CObs whose %s part is a %s" % (how, nm_, type(part).__name__), {"produced_by": how})
                    ok = False
            return ok
        if isinstance(x, np.ndarray):
            for e in x.ravel():
                check_obj(e, how + " [array entry]")
            return True
        ctx.fail("closure:%s" % how.split(" ")[0], "%s returned %s instead of a real or complex observable" % (how, type(x).__name__), {"produced_by": how, "returned": repr(x)[:200]})
        return False

    # closure sweep: every operator, both orders, over {real Obs, CObs, CObs with a real part only} x {numbers of every kind, complex numbers with
    # zero imaginary part, numpy scalars, a real-only CObs} -- the result and both parts of a complex result must be observables of the stated form
    lay0 = obsutil.gen_layout(rng, nmin=5, nmax=12)
    o_re, o_im, o_w = (obsutil.make_obs(pe, rng, lay0, "positive") for _ in range(3))
    lefts = [("Obs", o_re), ("CObs", pe.CObs(o_re, o_im)), ("CObs(real-only)", pe.CObs(o_w))]
    rights = [("int", 2), ("float", 0.5), ("complex", 1.5 + 2j), ("complex(imag=0)", complex(2.3)), ("complex(-1)", complex(-1)), ("np.complex128(imag=0)", np.complex128(0.25)),
              ("np.float64", np.float64(1.25)), ("np.int64", np.int64(3)), ("CObs(real-only)", pe.CObs(o_w + 1.0)), ("Obs", o_w + 2.0)]
    for (ln, a) in lefts:
        for (rn, b) in rights:
            for o in "+-*/":
                for x, y, how in ((a, b, "%s %s %s" % (ln, o, rn)), (b, a, "%s %s %s" % (rn, o, ln))):
                    try:
                        with warnings.catch_warnings():
                            warnings.simplefilter("ignore")
                            r = {"+": lambda: x + y, "-": lambda: x - y, "*": lambda: x * y, "/": lambda: x / y}[o]()
                    except Exception as e:
                        ctx.fail("closure:raises:" + how.split(" ")[1], "arithmetic %s raised %r instead of yielding a real or complex observable" % (how, e), {"op": how})
                        continue
                    check_obj(r, how)
                    ctx.case(("closure-sweep", how), nontrivial=False)
    nseq = 30 if quick else 500
    tmpd = tempfile.mkdtemp(prefix="verif_c04_")
    try:
        for s in range(nseq):
            lay = obsutil.gen_layout(rng, nmin=5, nmax=12)
            pool = [obsutil.make_obs(pe, rng, lay, "positive"), obsutil.make_obs(pe, rng, obsutil.derive_layout(rng, lay, rng.choice(obsutil.DERIVE_MODES)), "positive"),
                    pe.cov_Obs(1.5, 0.25, "cvA"), pe.cov_Obs(3, 0.25, "cvI"), pe.cov_Obs([2, 1.5], [[0.25, 0.0], [0.0, 0.04]], "cvL")[0], pe.CObs(obsutil.make_obs(pe, rng, lay, "int"), obsutil.make_obs(pe, rng, lay, "int"))]
            nums = [2, -3, 0.5, 1.5 + 2j, complex(2.0), 1j * 1j, 0.25j, np.float64(1.25), np.int64(3)]
            for step in range(10):
                a = rng.choice(pool)
                op = rng.choice(["+", "-", "*", "/", "r+", "r-", "r*", "r/", "fn", "pow", "neg", "abs", "reweight", "correlate", "merge", "json", "dobs", "pickle", "jack", "fit", "root", "arr"])
                try:
                    if op in ("+", "-", "*", "/", "r+", "r-", "r*", "r/"):
                        b = rng.choice(pool + nums + nums)
                        if op.startswith("r"):
                            a, b = b, a
                        o = op[-1]
                        if not isinstance(a, (pe.Obs, pe.CObs)) and not isinstance(b, (pe.Obs, pe.CObs)):
                            continue
                        r = {"+": lambda: a + b, "-": lambda: a - b, "*": lambda: a * b, "/": lambda: a / b}[o]()
                        how = "%s %s %s" % (type(a).__name__, o, type(b).__name__ + ("(imag=0)" if isinstance(b, complex) and b.imag == 0 else "") if not isinstance(a, complex) else type(b).__name__)
                        how = "%s %s %s" % (type(a).__name__ + ("(imag=0)" if isinstance(a, complex) and a.imag == 0 else ""), o, type(b).__name__ + ("(imag=0)" if isinstance(b, complex) and b.imag == 0 else ""))
                    elif op == "fn":
                        if not isinstance(a, pe.Obs):
                            continue
                        f = rng.choice(["sin", "cos", "exp", "log", "sqrt", "tanh", "arctan", "sinh", "arcsinh", "cosh"])
                        r = getattr(np, f)(a * 0.125 + 0.5)
                        how = "np.%s(Obs)" % f
                    elif op == "pow":
                        if not isinstance(a, pe.Obs):
                            continue
                        r = (abs(a) + 0.5) ** rng.choice([2, 0.5, -1])
                        how = "Obs ** number"
                    elif op == "neg":
                        r = -a
                        how = "-" + type(a).__name__
                    elif op == "abs":
                        if not isinstance(a, pe.Obs):
                            continue
                        r = abs(a)
                        how = "abs(Obs)"
                    elif op in ("reweight", "correlate", "merge", "jack"):
                        base = obsutil.gen_layout(rng, nmin=6, nmax=12, max_ens=1)
                        w = obsutil.make_obs(pe, rng, base, "positive")
                        if op == "reweight":
                            sub = obsutil.derive_layout(rng, base, rng.choice(["same", "subset_prefix", "subset_stride", "subset_random"]))
                            x = obsutil.make_obs(pe, rng, sub, "int")
                            r = pe.reweight(w, [x])[0]
                            how = "reweight(w, [o])"
                        elif op == "correlate":
                            x = obsutil.make_obs(pe, rng, base, "int")
                            r = pe.correlate(w, x)
                            how = "correlate(a, b)"
                        elif op == "merge":
                            names = sorted(base)
                            e = names[0].split("|")[0]
                            parts = [pe.Obs([np.array(obsutil.gen_data(rng, 6, "int"))], ["%s|m%d" % (e, k)], idl=[obsutil.gen_cfgs(rng, 6, rng.choice(obsutil.IDL_KINDS))]) for k in range(rng.randint(2, 3))]
                            r = pe.merge_obs(parts)
                            how = "merge_obs([...])"
                        else:
                            n1 = sorted(base)[0]
                            single = pe.Obs([np.array(obsutil.gen_data(rng, 7, "int"))], [n1], idl=[obsutil.gen_cfgs(rng, 7, rng.choice(obsutil.IDL_KINDS))])
                            r = pe.import_jackknife(single.export_jackknife(), n1, idl=[single.idl[n1]])
                            how = "import_jackknife(export_jackknife)"
                    elif op in ("json", "dobs", "pickle"):
                        if not isinstance(a, pe.Obs):
                            continue
                        fn = os.path.join(tmpd, "x%d_%d" % (s, step))
                        if op == "json":
                            pe.input.json.dump_to_json([a], fn)
                            r = pe.input.json.load_json(fn, verbose=False)[0]
                            how = "json round trip"
                        elif op == "dobs":
                            if any("|" not in n and n not in a.cov_names and False for n in a.names):
                                continue
                            pe.input.dobs.write_dobs([a], fn, "verif", who="verif")
                            r = pe.input.dobs.read_dobs(fn)[0]
                            how = "dobs round trip"
                        else:
                            a.dump(fn, datatype="pickle")
                            r = pe.load_object(fn + ".p")
                            how = "pickle round trip"
                    elif op == "fit":
                        xs = np.arange(1, 6)
                        base = obsutil.gen_layout(rng, nmin=8, nmax=12, max_ens=1)
                        ys = [obsutil.make_obs(pe, rng, base, "positive") * (1 + 0.1 * k) for k in range(5)]
                        [y.gamma_method() for y in ys]
                        res = pe.fits.least_squares(xs, ys, lambda p, x: p[0] + p[1] * x, silent=True)
                        r = np.array(list(res.fit_parameters))
                        how = "least_squares fit_parameters"
                    elif op == "root":
                        base = obsutil.gen_layout(rng, nmin=8, nmax=12, max_ens=1)
                        d = obsutil.make_obs(pe, rng, base, "positive")
                        r = pe.roots.find_root(d, lambda x, dd: x ** 3 + x - dd, guess=1.0)
                        how = "find_root"
                    else:
                        if not isinstance(a, pe.Obs):
                            continue
                        r = a + np.array([1.0, 2.0 + 0j, 3.5])
                        how = "Obs + ndarray"
                except Exception as e:
                    if op in ("+", "-", "*", "/", "r+", "r-", "r*", "r/") and isinstance(e, (AttributeError, TypeError)):
                        ctx.fail("closure:raises:%s" % how if False else "closure:raises:%s %s %s" % (type(a).__name__, op[-1], type(b).__name__),
                                 "arithmetic %s %s %s raised %r instead of yielding a real or complex observable" % (type(a).__name__, op[-1], type(b).__name__, e),
                                 {"left": type(a).__name__, "op": op[-1], "right": type(b).__name__, "right_value": repr(b)[:60] if not isinstance(b, (pe.Obs, pe.CObs)) else ""})
                    else:
                        ctx.skip("operation %s raised %s" % (op, type(e).__name__))
                    continue
                if check_obj(r, how) and isinstance(r, (pe.Obs, pe.CObs)) and len(pool) < 9:
                    if isinstance(r, pe.Obs) and isinstance(r.value, complex):
                        continue
                    pool.append(r)
    finally:
        import shutil
        shutil.rmtree(tmpd, ignore_errors=True)
    for c in produced:
        ctx.case(c["term"], nontrivial=True, sample=c["descr"] if len(ctx.samples) < 3 else None)
    (bw,) = common.judge_cases(ctx, "C04w", HDR, "ostruct", [c["term"] for c in produced], ["wfb"], shard=120)
    common.settle(ctx, "wf", produced, [], bw, "n/a")
    ctx.count("objects judged by wfb", len(produced))

    # covariance inputs: malformed requests
    for bad, why in ((lambda: pe.cov_Obs(1.0, 0.1, "a|b"), "'|' in a covariance name"),
                     (lambda: pe.cov_Obs([1.0, 2.0], [[1.0, 0.5], [0.2, 1.0]], "asym"), "asymmetric covariance"),
                     (lambda: pe.cov_Obs([1.0, 2.0], [[1.0, 2.0], [2.0, 1.0]], "indef"), "indefinite covariance"),
                     # asymmetry is a property of the matrix, not of its scale: small covariances (errors of 1e-5 .. 1e-7) are ordinary
                     (lambda: pe.cov_Obs([1.0, 2.0], [[2e-10, 5e-11], [-5e-11, 1e-10]], "asymS"), "asymmetric covariance"),
                     (lambda: pe.cov_Obs([1.0, 2.0], [[2e-10, 5e-11], [2e-11, 1e-10]], "asymT"), "asymmetric covariance"),
                     (lambda: pe.cov_Obs([1.0, 2.0, 3.0], [[3e-13, 1e-13, 0.0], [1e-13, 2e-13, 1e-14], [0.0, -1e-14, 2e-13]], "asymU"), "asymmetric covariance"),
                     (lambda: pe.cov_Obs([1.0, 2.0], [[2e-10, -3e-10], [-3e-10, 1e-10]], "indefS"), "indefinite covariance"),
                     # the shorthand forms (a single variance, a vector of variances) are covariance matrices too
                     (lambda: pe.cov_Obs(1.0, -0.04, "neg0"), "indefinite covariance"),
                     (lambda: pe.cov_Obs([1.0, 2.0], [0.1, -0.2], "neg1"), "indefinite covariance"),
                     (lambda: pe.covobs.Covobs(1.0, [0.5, -0.5], "neg2", pos=0), "indefinite covariance"),
                     (lambda: pe.cov_Obs([1.0, 2.0], [[1.0, 0.0, 0.0], [0.0, 1.0, 0.0]], "nonsq"), "non-square covariance")):
        try:
            bad()
            ctx.fail("covobs:accepts:" + why, "cov_Obs accepted a request with " + why, {"why": why})
        except Exception:
            pass
        ctx.case(("covobs-reject", why), nontrivial=False)


def replay(ctx, doc):
    run(ctx)
