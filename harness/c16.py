"""C16 -- GEVP and matrix pencil satisfy the eigen-equation and recover exact spectra (DESIGN §3 C16)."""
import warnings
from fractions import Fraction

from harness import common
from harness.common import qlit

LEVEL = "proof"

HDR = """From Coq Require Import ZArith QArith List Bool String.
From PV Require Import Base.QAux Lin.Mat Corr.Gevp.
Import ListNotations.
Open Scope Q_scope.
"""

VERDICTS = ["gcase_eq", "gcase_order", "gcase_parallel", "gcase_dual", "gcase_exp", "gcase_close"]
MSG = {"gcase_eq": "a returned vector does not satisfy G(t) v = lambda G(t0) v",
       "gcase_order": "the states are not ordered by decreasing eigenvalue (state 0 = largest)",
       "gcase_parallel": "solutions that must agree up to sign and normalisation (eigh / cholesky, plain / observable vectors) are not parallel",
       "gcase_dual": "a state's vector is not the dual vector of that state of the exact spectrum (wrong state labelling / not followed consistently over time)",
       "gcase_exp": "a projected eigenvalue / pruned correlator differs from exp(-E_n (t - t0))",
       "gcase_close": "an off-diagonal element of the pruned matrix does not vanish / an eigenvalue or extracted energy differs from the exact one"}


def vec_t(v):
    return "[" + "; ".join(qlit(float(x)) for x in v) + "]"


def mat_t(m):
    return "[" + "; ".join(vec_t(r) for r in m) + "]"


def run(ctx):
    import numpy as np
    pe = common.import_pyerrors()
    rng = ctx.rng
    quick = ctx.tier == "quick"
    ctx.rule = ("correlator matrices built from N = 2..5 exact exponentials with non-degenerate energies (multiples of 1/16) and generic overlaps, T = 8..24, t0 = 1..T/3, every state; methods eigh / cholesky, "
                "sort Eigenvalue / Eigenvector / None, vector_obs on/off, non-symmetric input (antisymmetric perturbation and asymmetric noise), undefined timeslices; prune to the lowest states; matrix pencil on exact "
                "multi-exponential correlators. Coq decides eigen-equation residuals, ordering, parallelism, duality with the exact overlap vectors (state labelling) and the closed forms exp(-E (t - t0)) with verified intervals")
    ctx.trusted += ["LAPACK / scipy.linalg.eigh are oracles judged per returned vector", "Interval library for exp enclosures", "the test matrices' entries are the doubles computed by numpy from the exact spectrum (their rounding is inside the tolerances)"]
    ctx.assumptions += ["tolerances: eigen-equation residual 2^-22 of its absolute terms, duality / parallelism 2^-14, closed forms 2^-16 relative; spectra restricted to exp(-(E_max - E_0)(T - t0)) >= 1e-6 so that all states are resolved in double precision"]
    ctx.copy_props()
    common.tie_pycore(ctx, ["Tie_sortvec.v"])

    cases = []
    ncase = 14 if quick else 200
    for i in range(ncase):
        N = [2, 3, 4, 5][i % 4] if i < 8 else rng.choice([2, 3, 4, 5])
        T = rng.randint(8, 24)
        t0 = rng.randint(1, max(1, T // 3))
        # energies: multiples of 1/16, spacing chosen such that all states stay resolved
        max_gap = 14.0 / (T - t0)
        step = max(1, min(4, int(max_gap * 16 / (N - 1))))
        E = [Fraction(rng.randint(2, 8), 16)]
        for n in range(1, N):
            E.append(E[-1] + Fraction(rng.randint(max(1, step // 2), step), 16))
        if float(E[-1] - E[0]) * (T - t0) > 15:
            T = t0 + int(15 / float(E[-1] - E[0]))
            if T < 6:
                continue
        Z = np.eye(N) + 0.35 * np.array([[rng.uniform(-1, 1) for _ in range(N)] for _ in range(N)])      # Z[i, n]: overlap of operator i with state n
        if abs(np.linalg.det(Z)) < 0.2:
            continue
        Ef = np.array([float(e) for e in E])
        G = [(Z * np.exp(-Ef * t)) @ Z.T for t in range(T)]
        G = [0.5 * (g + g.T) for g in G]
        nonsym = rng.choice(["symmetric", "noise", "antisymmetric"])
        if i in (1, 2, 3):                   # stratification: every run prunes a matrix with an antisymmetric part (i = 3: behind an undefined leading slice)
            nonsym = "antisymmetric"
        ncfg = 30
        content = []
        for t in range(T):
            m = np.empty((N, N), dtype=object)
            for a in range(N):
                for b in range(a, N):
                    def mk(val, seedv):
                        o = pe.Obs([np.array([0.01 * abs(val) * np.sin(1.7 * k * (seedv + 1) + 0.3 * t) for k in range(ncfg)])], ["gv%d" % i])
                        return o - o.value + val
                    o = mk(G[t][a, b], a * N + b)
                    if a == b or nonsym == "symmetric":
                        m[a, b] = o
                        m[b, a] = o
                    elif nonsym == "noise":
                        m[a, b] = o
                        m[b, a] = mk(G[t][a, b], b * N + a + 7)
                    else:
                        sh = 0.25 * abs(G[t][a, b]) + 1e-3 * abs(G[t][a, a])
                        m[a, b] = o + sh
                        m[b, a] = o - sh
            content.append(m)
        holes = sorted(rng.sample(range(t0 + 1, T), min(2, T - t0 - 2))) if rng.random() < 0.4 and T - t0 > 4 and i not in (1, 2) else []
        if t0 >= 1 and (rng.random() < 0.3 or i == 3):
            holes = sorted(set(holes) | {0})        # an undefined LEADING timeslice: the symmetry of the matrices must still be examined
            ctx.count("gevp: leading timeslice undefined (%s input)" % nonsym)
        content_h = [None if t in holes else content[t] for t in range(T)]
        eqs, orders, par, dual, exps, close = [], [], [], [], [], []
        zs = [list(Z[:, n]) for n in range(N)]
        Gq = lambda t: mat_t(G[t])
        try:
            with warnings.catch_warnings():
                warnings.simplefilter("ignore")
                C = pe.Corr(content_h)
                v_eigh = C.GEVP(t0, sort="Eigenvalue")
                v_chol = C.GEVP(t0, sort="Eigenvalue", method="cholesky")
                ts = next(t for t in range(t0 + 1, T) if t not in holes)
                v_evec = C.GEVP(t0, ts=ts, sort="Eigenvector")
                v_none = C.GEVP(t0, ts=ts, sort=None)
                for t in range(T):
                    undefined = t <= t0 or t in holes
                    for s in range(N):
                        if undefined:
                            if v_eigh[s][t] is not None or v_evec[s][t] is not None:
                                ctx.fail("gevp:undefined-slice", "a vector is returned for t <= t0 or an undefined timeslice (t = %d, t0 = %d, undefined %s)" % (t, t0, holes), {"t": t, "t0": t0, "holes": holes})
                            continue
                        if v_eigh[s][t] is None:
                            ctx.fail("gevp:missing-vector", "no vector for state %d at the defined timeslice t = %d > t0 = %d" % (s, t, t0), {"t": t, "t0": t0, "holes": holes})
                            continue
                        eqs.append("(%s, %s, %s)" % (Gq(t), Gq(t0), vec_t(v_eigh[s][t])))
                        eqs.append("(%s, %s, %s)" % (Gq(t), Gq(t0), vec_t(v_chol[s][t])))
                        par.append("(%s, %s)" % (vec_t(v_eigh[s][t]), vec_t(v_chol[s][t])))
                        dual.append("(%s, %d%%nat, %s)" % (mat_t(zs), s, vec_t(v_eigh[s][t])))
                        dual.append("(%s, %d%%nat, %s)" % (mat_t(zs), s, vec_t(v_evec[s][t])))
                    if not undefined:
                        orders.append("[" + "; ".join("(%s, %s, %s)" % (Gq(t), Gq(t0), vec_t(v_eigh[s][t])) for s in range(N)) + "]")
                for s in range(N):
                    dual.append("(%s, %d%%nat, %s)" % (mat_t(zs), s, vec_t(v_none[s])))
                    eqs.append("(%s, %s, %s)" % (Gq(ts), Gq(t0), vec_t(v_none[s])))
                    # projected eigenvalue correlator: sort=None uses one vector for all times, sort='Eigenvalue' one per time
                    ev_all = C.Eigenvalue(t0, ts=ts, state=s, sort=None)
                    ev_t = C.Eigenvalue(t0, state=s)
                    for t in range(T):
                        if t in holes:
                            continue
                        val = ev_all.content[t][0].value
                        exps.append("(%s, %s, %s, %s)" % (qlit(float(val)), qlit(E[s]), qlit(Fraction(t - t0)), qlit(2.0 ** -16 * float(np.exp(-Ef[s] * (t - t0))))))
                        if t > t0:
                            val = ev_t.content[t][0].value
                            exps.append("(%s, %s, %s, %s)" % (qlit(float(val)), qlit(E[s]), qlit(Fraction(t - t0)), qlit(2.0 ** -16 * float(np.exp(-Ef[s] * (t - t0))))))
                # vector_obs: the observable-valued vectors have the same central values up to sign
                if i % 3 == 0:
                    v_obs = C.GEVP(t0, ts=ts, sort=None, vector_obs=True)
                    for s in range(N):
                        par.append("(%s, %s)" % (vec_t(v_none[s]), vec_t([x.value for x in v_obs[s]])))
                # prune to the lowest states
                if N >= 3 and not holes and T > t0 + 3:
                    Ntr = rng.randint(1, N - 1) if N > 2 else 1
                    if i in (1, 2):
                        Ntr = 2
                    t0p = t0
                    tp = t0 + 1
                    if Ntr >= 2:
                        P = C.prune(Ntr, tproj=tp, t0proj=t0p)
                        for t in range(T):
                            for a in range(Ntr):
                                for b in range(Ntr):
                                    # a later GEVP symmetrises its input first: the energies live in the symmetric part of the pruned matrix
                                    val = 0.5 * (P.content[t][a, b].value + P.content[t][b, a].value)
                                    if a == b:
                                        exps.append("(%s, %s, %s, %s)" % (qlit(float(val)), qlit(E[a]), qlit(Fraction(t - t0p)), qlit(2.0 ** -16 * float(np.exp(-Ef[a] * (t - t0p))))))
                                    else:
                                        close.append("(%s, 0, %s)" % (qlit(float(val)), qlit(2.0 ** -16 * float(np.exp(-0.5 * (Ef[a] + Ef[b]) * (t - t0p))))))
        except Exception as e:
            ctx.skip("gevp not computed: %s: %s" % (type(e).__name__, str(e)[:70]))
            continue
        term = "(mkGCase (1 # 2 ^ 22) (1 # 2 ^ 14) [%s] [%s] [%s] [%s] [%s] [%s])" % ("; ".join(eqs), "; ".join(orders), "; ".join(par), "; ".join(dual), "; ".join(exps), "; ".join(close))
        descr = {"kind": "gevp", "N": N, "T": T, "t0": t0, "energies": [float(e) for e in E], "input": nonsym, "undefined_timeslices": holes}
        cases.append({"term": term, "descr": descr, "key": "gevp:N%d:%s" % (N, nonsym), "replay": descr})
        ctx.count("N:%d" % N)
        ctx.count("input:" + nonsym)
        ctx.count("undefined-slices:%d" % len(holes))
        ctx.case(("gevp", N, T, t0, tuple(descr["energies"])), nontrivial=True, sample=descr if len(ctx.samples) < 2 else None)

    # ------------------------------------------------------------------ level crossings: forward + backward propagating states
    # G(t) = sum_n z_n z_n^T f_n(t), f_n(t) = exp(-E_n t) + b_n exp(-E_n (T - t)): the dual vectors are time independent, the ORDER of the
    # eigenvalues f_n(t)/f_n(t0) changes at late times.  sort="Eigenvalue" relabels there, sort="Eigenvector" must keep following the state.
    made = 0
    for i in range(400):
        if made >= (4 if quick else 40):
            break
        N = rng.choice([2, 3])
        T = rng.randint(14, 20)
        t0 = rng.randint(1, 3)
        Ef = np.array(sorted(rng.uniform(0.15, 1.2) for _ in range(N)))
        back = np.array([rng.choice([0.0, 0.02, 0.3, 1.0]) for _ in range(N)])
        f = lambda t: np.exp(-Ef * t) + back * np.exp(-Ef * (T - t))
        lam = lambda t: f(t) / f(t0)
        ts = t0 + 1
        order = {t: list(np.argsort(-lam(t))) for t in range(t0 + 1, T)}
        if any(np.min(np.abs(np.diff(np.sort(lam(t))))) / np.max(lam(t)) < 2e-2 for t in range(t0 + 1, T)):
            continue
        if not any(order[t] != order[ts] for t in range(t0 + 1, T)):
            continue
        if np.min(lam(T - 1)) / np.max(lam(T - 1)) < 1e-5:
            continue
        Z = np.eye(N) + 0.35 * np.array([[rng.uniform(-1, 1) for _ in range(N)] for _ in range(N)])
        if abs(np.linalg.det(Z)) < 0.3:
            continue
        G = [(Z * f(t)) @ Z.T for t in range(T)]
        G = [0.5 * (g + g.T) for g in G]
        content = []
        for t in range(T):
            m = np.empty((N, N), dtype=object)
            for a_ in range(N):
                for b_ in range(a_, N):
                    o = pe.Obs([np.array([0.01 * abs(G[t][a_, b_]) * np.sin(1.7 * k * (a_ * N + b_ + 1) + 0.3 * t) for k in range(30)])], ["gx%d" % i])
                    m[a_, b_] = o - o.value + G[t][a_, b_]
                    m[b_, a_] = m[a_, b_]
            content.append(m)
        zs = [list(Z[:, n]) for n in range(N)]
        eqs, orders, par, dual, close = [], [], [], [], []
        try:
            with warnings.catch_warnings():
                warnings.simplefilter("ignore")
                C = pe.Corr(content)
                for method in ("eigh", "cholesky"):
                    v_val = C.GEVP(t0, sort="Eigenvalue", method=method)
                    v_vec = C.GEVP(t0, ts=ts, sort="Eigenvector", method=method)
                    for t in range(t0 + 1, T):
                        for s in range(N):
                            eqs.append("(%s, %s, %s)" % (mat_t(G[t]), mat_t(G[t0]), vec_t(v_val[s][t])))
                            eqs.append("(%s, %s, %s)" % (mat_t(G[t]), mat_t(G[t0]), vec_t(v_vec[s][t])))
                            dual.append("(%s, %d%%nat, %s)" % (mat_t(zs), order[t][s], vec_t(v_val[s][t])))       # relabelled at the crossing
                            dual.append("(%s, %d%%nat, %s)" % (mat_t(zs), order[ts][s], vec_t(v_vec[s][t])))     # follows the state
                        orders.append("[" + "; ".join("(%s, %s, %s)" % (mat_t(G[t]), mat_t(G[t0]), vec_t(v_val[s][t])) for s in range(N)) + "]")
                    for s in range(N):
                        ev = C.Eigenvalue(t0, ts=ts, state=s, sort="Eigenvector", method=method)
                        n_phys = order[ts][s]
                        for t in range(t0 + 1, T):
                            close.append("(%s, %s, %s)" % (qlit(float(ev.content[t][0].value)), qlit(float(lam(t)[n_phys])), qlit(2.0 ** -16 * float(lam(t)[n_phys]))))
        except Exception as e:
            ctx.skip("gevp (crossing) not computed: %s: %s" % (type(e).__name__, str(e)[:70]))
            continue
        made += 1
        term = "(mkGCase (1 # 2 ^ 22) (1 # 2 ^ 14) [%s] [%s] [%s] [%s] [] [%s])" % ("; ".join(eqs), "; ".join(orders), "; ".join(par), "; ".join(dual), "; ".join(close))
        crossed = [t for t in range(t0 + 1, T) if order[t] != order[ts]]
        descr = {"kind": "gevp-crossing", "N": N, "T": T, "t0": t0, "ts": ts, "energies": [float(e) for e in Ef], "backward": [float(b) for b in back], "order_differs_at": crossed}
        cases.append({"term": term, "descr": descr, "key": "gevp-crossing:N%d" % N, "replay": descr})
        ctx.count("crossing:N%d" % N)
        ctx.case(("gevp-crossing", N, T, t0, tuple(descr["energies"])), nontrivial=True, sample=descr if len(ctx.samples) < 3 else None)

    # ------------------------------------------------------------------ matrix pencil on exact multi-exponential correlators
    import pyerrors.mpm as mpm
    for i in range(6 if quick else 60):
        k = rng.choice([1, 2, 2, 3])
        T = rng.randint(12, 20)
        E = [Fraction(rng.randint(3, 8), 16)]
        for n in range(1, k):
            E.append(E[-1] + Fraction(rng.randint(5, 9), 16))
        amp = [rng.uniform(0.5, 2.0) for _ in range(k)]
        Ef = np.array([float(e) for e in E])
        data = []
        for t in range(T):
            val = float(np.sum(np.array(amp) * np.exp(-Ef * t)))
            o = pe.Obs([np.array([1e-6 * val * np.sin(1.3 * kk + t) for kk in range(30)])], ["mp%d" % i])
            data.append(o - o.value + val)
        try:
            with warnings.catch_warnings():
                warnings.simplefilter("ignore")
                en = mpm.matrix_pencil_method(data, k=k)
        except Exception as e:
            ctx.skip("matrix pencil not computed: %s: %s" % (type(e).__name__, str(e)[:70]))
            continue
        close = ["(%s, %s, %s)" % (qlit(float(e_est.value)), qlit(e_ex), qlit(2.0 ** -20 * 10 ** k)) for e_est, e_ex in zip(en, E)]
        if len(en) != k:
            ctx.fail("mpm:count", "matrix pencil returned %d instead of %d levels" % (len(en), k), {"k": k})
        term = "(mkGCase (1 # 2 ^ 22) (1 # 2 ^ 14) [] [] [] [] [] [%s])" % "; ".join(close)
        descr = {"kind": "matrix_pencil", "k": k, "T": T, "energies": [float(e) for e in E], "extracted": [float(x.value) for x in en]}
        cases.append({"term": term, "descr": descr, "key": "mpm:k%d" % k, "replay": descr})
        ctx.count("mpm:k%d" % k)
        ctx.case(("mpm", k, T, tuple(descr["energies"])), nontrivial=True, sample=descr if len(ctx.samples) < 3 else None)

    bads = common.judge_cases(ctx, "C16", HDR, "gcase", [c["term"] for c in cases], VERDICTS, shard=1)
    failing = {}
    for v, lst in zip(VERDICTS, bads):
        for k in lst:
            failing.setdefault(k, []).append(v)
    for k, vs in sorted(failing.items()):
        c = cases[k]
        ctx.fail(c["key"], "%s: %s" % (c["descr"]["kind"], "; ".join(MSG[v] for v in vs)), dict(c["descr"], failed_verdicts=vs))


def replay(ctx, doc):
    run(ctx)
