"""Synthetic measurement files in the openQCD / sfqcd / ms5_xsf / sfcf formats, written from first principles (struct)
following the record layouts that the readers of pyerrors/input/openQCD.py and sfcf.py consume (DESIGN Appendix A)."""
import os
import struct


def msdat_bytes(dn, nn, tmax, eps, trajs, blocks):
    """blocks[i] = (W, Y, Q) for trajectory trajs[i]; each a list of tmax*(nn+1) doubles.  -> (bytes, header_len, record_len)"""
    B = tmax * (nn + 1)
    out = struct.pack("<iii", dn, nn, tmax) + struct.pack("<d", eps)
    H = len(out)
    for tr, (W, Y, Q) in zip(trajs, blocks):
        assert len(W) == len(Y) == len(Q) == B
        out += struct.pack("<i", tr) + struct.pack("<%dd" % B, *W) + struct.pack("<%dd" % B, *Y) + struct.pack("<%dd" % B, *Q)
    return out, H, 4 + 3 * 8 * B


def rwms16_bytes(nfct, nsrc, cfgs, data, version="1.6"):
    """data[c][i][j] = list of nsrc[i] doubles (the second array of each pair; the first is arbitrary filler)"""
    nrw = len(nsrc)
    out = struct.pack("<i", nrw)
    if version == "1.6":
        out += struct.pack("<%di" % nrw, *nfct)
    out += struct.pack("<%di" % nrw, *nsrc)
    H = len(out)
    R = 4 + sum(nfct[i] * 2 * 8 * nsrc[i] for i in range(nrw))
    for c, cfg in enumerate(cfgs):
        out += struct.pack("<i", cfg)
        for i in range(nrw):
            for j in range(nfct[i]):
                out += struct.pack("<%dd" % nsrc[i], *[float(1000 + k) for k in range(nsrc[i])])
                out += struct.pack("<%dd" % nsrc[i], *data[c][i][j])
    return out, H, R


def _arr20(n, vals):
    """the self-describing array of openQCD 2.0: d, n[d], size (8: doubles), data"""
    m = 1
    for x in n:
        m *= x
    return struct.pack("<i", len(n)) + struct.pack("<%di" % len(n), *n) + struct.pack("<i", 8) + struct.pack("<%dd" % m, *vals)


def rwms20_bytes(nfct, nsrc, cfgs, data):
    """openQCD 2.0: header nrw*2, nfct, nsrc, 0; per config, for each rw: two arrays of shape [nfct, 2*nsrc] (quadruple
    precision numbers stored as two doubles); of the second array the leading double of each pair is used"""
    nrw = len(nsrc)
    out = struct.pack("<i", 2 * nrw) + struct.pack("<%di" % nrw, *nfct) + struct.pack("<%di" % nrw, *nsrc) + struct.pack("<i", 0)
    H = len(out)
    R = None
    for c, cfg in enumerate(cfgs):
        rec = struct.pack("<i", cfg)
        for i in range(nrw):
            n = [nfct[i], 2 * nsrc[i]]
            filler, vals = [], []
            for j in range(nfct[i]):
                for s in range(nsrc[i]):
                    filler += [3.0, 0.0]
                    vals += [data[c][i][j][s], 0.0]
            rec += _arr20(n, filler) + _arr20(n, vals)
        R = len(rec)
        out += rec
    return out, H, R


def sfqcd_gfms_bytes(zthfl, ncs, tmax, L, tol, cmax, trajs, data):
    """data[rec][j][i] = tmax doubles, j = 0..ncs, i = 0..8*nfl-1"""
    nfl = 2 if zthfl == 2 else 1
    out = struct.pack("<iii", zthfl, ncs, tmax) + struct.pack("<iii", L, L, L) + struct.pack("<dd", tol, cmax)
    H = len(out)
    R = 4 + (ncs + 1) * 8 * nfl * 8 * tmax
    for tr, rec in zip(trajs, data):
        out += struct.pack("<i", tr)
        for j in range(ncs + 1):
            for i in range(8 * nfl):
                out += struct.pack("<%dd" % tmax, *rec[j][i])
    return out, H, R


def ms5xsf_bytes(tmax, cfgs, data, kappa=0.13, csw=1.0, dF=1.0, zF=1.0, bnd=2):
    """data[c] = (timedep: 10 lists of 2*tmax doubles (re, im interleaved), timeindep: 2 lists of 2 doubles)"""
    out = struct.pack("<dddd", kappa, csw, dF, zF) + struct.pack("<ii", tmax, bnd)
    H = len(out)
    R = 4 + 8 * 2 * tmax * 10 + 8 * 2 * 2
    for cfg, (td, ti) in zip(cfgs, data):
        rec = struct.pack("=i", cfg)
        for k in range(10):
            rec += struct.pack("=%dd" % (2 * tmax), *td[k])
        for k in range(2):
            rec += struct.pack("=2d", *ti[k])
        assert len(rec) == R
        out += rec
    return out, H, R


# ------------------------------------------------------------------ sfcf (text), templated on the layout of the shipped examples
RUN_HEAD = """[run]

version     2.1
date        2022-01-19 11:04:00 +0100
host        verif
dir         /scratch
user        verif
gauge_name  %s
gauge_md5   1ea28326e4090996111a320b8372811d
param_name  sfcf_unity_test.in
param_md5   d881e90d41188a33b8b0f1bd0bc53ea5
param_hash  686af5e712ee2902180f5428af94c6e7
data_name   ./output/data

"""


def _corr_block(name, quarks, wf, vals, off=0):
    s = "[correlator]\n\nname      %s\nquarks    %s\noffset    %d\nwf        %d\ncorr_t\n" % (name, quarks, off, wf)
    for t, (re_, im_) in enumerate(vals):
        s += "%3d %+.16e %+.16e\n" % (t + 1, re_, im_)
    return s + "\n"


def sfcf_compact_file(gauge, corrs):
    """corrs: list of (name, quarks, wf, [(re, im)] per t)"""
    return RUN_HEAD % gauge + "".join(_corr_block(*c) for c in corrs)


def write_sfcf_compact(root, prefix, reps, cfgs_per_rep, corr_fn, names=("f_A", "f_P"), T=3, nwf=2):
    """<root>/<prefix>_r<rep>/<prefix>_r<rep>_n<cfg>; corr_fn(rep, cfg, name, wf, t) -> (re, im)"""
    for r in reps:
        d = os.path.join(root, "%s_r%d" % (prefix, r))
        os.makedirs(d, exist_ok=True)
        for c in cfgs_per_rep[r]:
            corrs = [(nm, "lquark lquark", wf, [corr_fn(r, c, nm, wf, t) for t in range(T)]) for nm in names for wf in range(nwf)]
            with open(os.path.join(d, "%s_r%d_n%d" % (prefix, r, c)), "w") as f:
                f.write(sfcf_compact_file("/%s_r%d_n%d" % (prefix, r, c), corrs))


def write_sfcf_separate(root, prefix, reps, cfgs_per_rep, corr_fn, names=("f_A", "f_P"), T=3, nwf=2):
    """<root>/<prefix>_r<rep>/cfg<cfg>/<name>"""
    for r in reps:
        for c in cfgs_per_rep[r]:
            d = os.path.join(root, "%s_r%d" % (prefix, r), "cfg%d" % c)
            os.makedirs(d, exist_ok=True)
            for nm in names:
                corrs = [(nm, "lquark lquark", wf, [corr_fn(r, c, nm, wf, t) for t in range(T)]) for wf in range(nwf)]
                with open(os.path.join(d, nm), "w") as f:
                    f.write(sfcf_compact_file("/unity", corrs))


def write_sfcf_appended(root, prefix, reps, cfgs_per_rep, corr_fn, names=("f_A", "f_P"), T=3, nwf=2):
    """<root>/<prefix>_r<rep>.<name> : one chunk per configuration"""
    os.makedirs(root, exist_ok=True)
    for r in reps:
        for nm in names:
            with open(os.path.join(root, "%s_r%d.%s" % (prefix, r, nm)), "w") as f:
                for c in cfgs_per_rep[r]:
                    corrs = [(nm, "lquark lquark", wf, [corr_fn(r, c, nm, wf, t) for t in range(T)]) for wf in range(nwf)]
                    f.write(sfcf_compact_file("/%s_r%d_n%d" % (prefix, r, c), corrs))
